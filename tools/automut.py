#!/usr/bin/env python3
"""Sampled operator mutation of one library file against one check (sensitivity probe, not a registered check).

usage: automut.py <Cxx> <file relative to pyoda_time> <how many> [sample seed] [tier]

Sites: comparison operators (< <= > >= == !=), binary + / -, // vs %, and small integer literals (n -> n+1) found
with `ast`; a deterministic sample of them is applied one at a time to a scratch copy of the package in /dev/shm and
the check's tier is run against the copy through VERIF_REPO.  For every mutant the check does NOT flag, the upstream
test-suite is run against the same copy: a mutant that survives both is either equivalent or a gap in the check and is
printed as SURVIVOR for reading.  Nothing here touches /repo.
"""
import ast
import os
import random
import shutil
import subprocess
import sys
import tempfile

ICU = "/root/miniconda/pkgs/icu-73.1-h6a678d5_0/lib"
SWAP = {ast.Lt: "<=", ast.LtE: "<", ast.Gt: ">=", ast.GtE: ">", ast.Eq: "!=", ast.NotEq: "=="}
TXT = {ast.Lt: "<", ast.LtE: "<=", ast.Gt: ">", ast.GtE: ">=", ast.Eq: "==", ast.NotEq: "!="}
BIN = {ast.Add: ("+", "-"), ast.Sub: ("-", "+"), ast.FloorDiv: ("//", "%"), ast.Mod: ("%", "//")}


def sites(src):
    tree = ast.parse(src)
    lines = src.splitlines(keepends=True)
    off = [0]
    for l in lines:
        off.append(off[-1] + len(l.encode()))
    b = src.encode()

    def pos(n, end=False):
        return off[(n.end_lineno if end else n.lineno) - 1] + (n.end_col_offset if end else n.col_offset)

    out = []
    for node in ast.walk(tree):
        if isinstance(node, ast.Compare) and len(node.ops) == 1 and type(node.ops[0]) in SWAP:
            a, z = pos(node.left, True), pos(node.comparators[0])
            seg = b[a:z].decode()
            t = TXT[type(node.ops[0])]
            if seg.count(t) == 1 and "#" not in seg:
                out.append((a, z, seg.replace(t, SWAP[type(node.ops[0])]), node.lineno))
        elif isinstance(node, ast.BinOp) and type(node.op) in BIN:
            a, z = pos(node.left, True), pos(node.right)
            seg = b[a:z].decode()
            t, r = BIN[type(node.op)]
            if seg.strip(" ()\n") == t and "#" not in seg:
                out.append((a, z, seg.replace(t, r), node.lineno))
        elif isinstance(node, ast.Constant) and type(node.value) is int and 0 <= node.value <= 400:
            a, z = pos(node), pos(node, True)
            if b[a:z].decode() == str(node.value):
                out.append((a, z, str(node.value + 1), node.lineno))
    return sorted(set(out)), b


def main():
    prop, rel, n = sys.argv[1], sys.argv[2], int(sys.argv[3])
    seed = int(sys.argv[4]) if len(sys.argv) > 4 else 1
    tier = sys.argv[5] if len(sys.argv) > 5 else "quick"
    src = open(os.path.join("/repo/pyoda_time", rel)).read()
    ss, b = sites(src)
    pick = random.Random(seed).sample(ss, min(n, len(ss)))
    print(f"{rel}: {len(ss)} sites, sampling {len(pick)} (seed {seed}) against {prop} {tier}", flush=True)
    det = surv = killed_by_suite = broken = 0
    for a, z, new, line in sorted(pick):
        tmp = tempfile.mkdtemp(prefix="amut-", dir="/dev/shm")
        try:
            shutil.copytree("/repo", os.path.join(tmp, "r"), ignore=shutil.ignore_patterns("__pycache__", ".git", "docs"))
            root = os.path.join(tmp, "r")
            mb = b[:a] + new.encode() + b[z:]
            try:
                compile(mb, rel, "exec")
            except SyntaxError:
                broken += 1
                continue
            open(os.path.join(root, "pyoda_time", rel), "wb").write(mb)
            what = f"L{line}: {b[a:z].decode().strip()!r} -> {new.strip()!r} | {src.splitlines()[line - 1].strip()[:90]}"
            r = subprocess.run(["/venv/bin/python", "/verif/run.py", prop, tier], env=dict(os.environ, VERIF_REPO=root), capture_output=True, text=True, cwd="/verif")
            if r.returncode == 1:
                det += 1
                print(f"DETECTED  {what}", flush=True)
                continue
            if r.returncode != 0:
                print(f"HARNESS({r.returncode}) {what}\n{r.stdout[-300:]}", flush=True)
                continue
            t = subprocess.run("/venv/bin/python -m pytest -q -x -p no:cacheprovider -n 6 --timeout=600 2>&1 | tail -1", shell=True, cwd=root, env=dict(os.environ, LD_LIBRARY_PATH=ICU), capture_output=True, text=True)
            if " failed" in t.stdout or " error" in t.stdout:
                killed_by_suite += 1
                print(f"missed-but-suite-kills  {what}", flush=True)
            else:
                surv += 1
                print(f"SURVIVOR  {what}   [{t.stdout.strip()[-60:]}]", flush=True)
        finally:
            shutil.rmtree(tmp, ignore_errors=True)
    print(f"summary {prop} {rel}: detected {det}, missed but killed by upstream suite {killed_by_suite}, survivors {surv}, uncompilable {broken}")


if __name__ == "__main__":
    main()
