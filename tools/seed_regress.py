#!/usr/bin/env python3
"""Re-run every kept seeded change (/verif/seeded/<id>-<n>/patch.diff) against the *current* checks.

For each: scratch copy of /repo/pyoda_time in /dev/shm, apply the patch (patch -p1 --fuzz=3), run the property's quick
tier with VERIF_REPO pointing at the copy, expect exit 1. Prints one line per seed and a summary; never touches /repo.
usage: seed_regress.py [ids...]      (default: all)
"""
import json, os, shutil, subprocess, sys, tempfile

root = "/verif/seeded"
names = sorted(d for d in os.listdir(root) if os.path.isdir(os.path.join(root, d)))
if len(sys.argv) > 1:
    names = [n for n in names if n in sys.argv[1:] or n.split("-")[0] in sys.argv[1:]]
missed = []
for name in names:
    prop = name.split("-")[0]
    tmp = tempfile.mkdtemp(prefix="sreg-", dir="/dev/shm")
    try:
        shutil.copytree("/repo/pyoda_time", os.path.join(tmp, "pyoda_time"), ignore=shutil.ignore_patterns("__pycache__"))
        r = subprocess.run(f"patch -p1 --fuzz=3 -s < {root}/{name}/patch.diff", shell=True, cwd=tmp, capture_output=True, text=True)
        if r.returncode != 0:
            print(f"{name}: PATCH-FAILED {r.stdout[-200:]}", flush=True)
            missed.append(name)
            continue
        env = dict(os.environ, VERIF_REPO=tmp)
        r = subprocess.run(["/venv/bin/python", "/verif/run.py", prop, "quick"], env=env, capture_output=True, text=True, cwd="/verif")
        sigs = [l.strip() for l in r.stdout.splitlines() if l.strip().startswith("signature=")]
        ok = r.returncode == 1
        print(f"{name}: exit {r.returncode} {'DETECTED' if ok else 'MISSED'} {sigs[:2]}", flush=True)
        if not ok:
            missed.append(name)
    finally:
        shutil.rmtree(tmp, ignore_errors=True)
print(f"SUMMARY: {len(names) - len(missed)}/{len(names)} detected; missed: {missed}")
