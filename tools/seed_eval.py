#!/usr/bin/env python3
"""Confirm and evaluate one seeded change produced by an independent sub-agent.

usage: seed_eval.py <Cxx> <n> [--checks C01,C09] [--tier quick]

1. In the agent's scratch worktree (/tmp/seed/<Cxx>): demo passes on the clean tree, fails with the patch, and the
   full upstream test-suite still passes with the patch (confirmed by me, not taken from the agent's report).
2. Copies patch.diff / demo.py / meta.json to /verif/seeded/<Cxx>-<n>/.
3. Applies the patch to /repo (git apply), runs the named checks' tier, records which signatures fire, and undoes
   the patch straight afterwards (git checkout -- .).
"""
import json
import os
import shutil
import subprocess
import sys

ICU = "/root/miniconda/pkgs/icu-73.1-h6a678d5_0/lib"


def sh(cmd, cwd=None, env=None, timeout=3600):
    e = dict(os.environ)
    if env:
        e.update(env)
    r = subprocess.run(cmd, shell=True, cwd=cwd, env=e, capture_output=True, text=True, timeout=timeout)
    return r.returncode, r.stdout + r.stderr


def main():
    prop, n = sys.argv[1], sys.argv[2]
    checks = [prop]
    tier = "quick"
    scratch = False
    a = sys.argv[3:]
    while a:
        if a[0] == "--checks":
            checks = a[1].split(",")
            a = a[2:]
        elif a[0] == "--tier":
            tier = a[1]
            a = a[2:]
        elif a[0] == "--scratch":
            scratch = True
            a = a[1:]
        else:
            a = a[1:]
    wt = f"/tmp/seed/{prop}"
    src = f"/tmp/seed/{prop}-out/{n}"
    dst = f"/verif/seeded/{prop}-{n}"
    ran = []
    env = {"LD_LIBRARY_PATH": ICU, "PYTHONPATH": wt}
    sh("git checkout -- .", cwd=wt)
    rc0, out0 = sh(f"/venv/bin/python {src}/demo.py", cwd=wt, env=env)
    ran.append(f"demo on clean worktree: exit {rc0}")
    rca, outa = sh(f"git apply {src}/patch.diff", cwd=wt)
    if rca != 0:
        print("patch does not apply in worktree:", outa)
        return 2
    rc1, out1 = sh(f"/venv/bin/python {src}/demo.py", cwd=wt, env=env)
    ran.append(f"demo with patch: exit {rc1}")
    rct, outt = sh("/venv/bin/python -m pytest -q -p no:cacheprovider -n 8 --timeout=900 2>&1 | tail -1", cwd=wt, env={"LD_LIBRARY_PATH": ICU})
    ran.append(f"full suite with patch: {outt.strip()}")
    rcb, outb = sh("/venv/bin/python -m pytest -q -p no:cacheprovider --timeout=900 --continue-on-collection-errors 2>&1 | tail -1", cwd=wt)
    ran.append(f"pinned baseline (no ICU) with patch: {outb.strip()}")
    sh("git checkout -- .", cwd=wt)
    import re

    confirmed = rc0 == 0 and rc1 != 0 and not re.search(r"\b\d+ (failed|error)", outt) and "10356 passed" in outt and "393 passed" in outb
    print("\n".join(ran))
    print("confirmed:", confirmed)
    if not confirmed:
        print(out1[-800:])
        return 3
    os.makedirs(dst, exist_ok=True)
    for f in ("patch.diff", "demo.py"):
        shutil.copy(os.path.join(src, f), os.path.join(dst, f))
    try:
        meta = json.load(open(os.path.join(src, "meta.json")))
    except Exception:  # noqa: BLE001
        meta = {}
    # run the checks against the patched tree: either /repo itself (apply, run, undo) or, with --scratch, a scratch
    # copy of the package in /dev/shm given to the checks through VERIF_REPO (leaves /repo untouched, so that
    # background runs against /repo are not disturbed)
    results = {}
    if scratch:
        import tempfile

        tmp = tempfile.mkdtemp(prefix="seed-", dir="/dev/shm")
        try:
            shutil.copytree("/repo/pyoda_time", os.path.join(tmp, "pyoda_time"), ignore=shutil.ignore_patterns("__pycache__"))
            rcg, outg = sh(f"patch -p1 --fuzz=3 -s < {dst}/patch.diff", cwd=tmp)
            if rcg != 0:
                print("patch does not apply to current /repo copy:", outg)
                results["apply"] = "failed: " + outg[-300:]
            else:
                for ck in checks:
                    rc, out = sh(f"/venv/bin/python run.py {ck} {tier}", cwd="/verif", env={"VERIF_REPO": tmp})
                    sigs = [l.strip() for l in out.splitlines() if l.strip().startswith("signature=")]
                    results[ck] = {"exit": rc, "detected": rc == 1, "signatures": sigs[:6], "summary": out.strip().splitlines()[-1] if out.strip() else "", "how": "scratch copy via VERIF_REPO"}
                    print(ck, tier, "exit", rc, "DETECTED" if rc == 1 else "MISSED", sigs[:3])
        finally:
            shutil.rmtree(tmp, ignore_errors=True)
    else:
        rcg, outg = sh(f"git apply --check {dst}/patch.diff", cwd="/repo")
        if rcg != 0:
            print("patch does not apply to current /repo:", outg)
            results["apply"] = "failed: " + outg[-300:]
        else:
            sh(f"git apply {dst}/patch.diff", cwd="/repo")
            try:
                for ck in checks:
                    rc, out = sh(f"/venv/bin/python run.py {ck} {tier}", cwd="/verif", env={"VERIF_ALT": "1"})
                    sigs = [l.strip() for l in out.splitlines() if l.strip().startswith("signature=")]
                    results[ck] = {"exit": rc, "detected": rc == 1, "signatures": sigs[:6], "summary": out.strip().splitlines()[-1] if out.strip() else ""}
                    print(ck, tier, "exit", rc, "DETECTED" if rc == 1 else "MISSED", sigs[:3])
            finally:
                sh("git checkout -- .", cwd="/repo")
    meta.update({"property": prop, "confirmed_by_me": ran, "checks_run": results, "tier": tier})
    json.dump(meta, open(os.path.join(dst, "meta.json"), "w"), indent=1)
    return 0


if __name__ == "__main__":
    sys.exit(main())
