#!/bin/bash
# Runs (1) the pinned 393-test baseline exactly as /root/.vp/BASELINE.json does (no ICU on the loader path)
# and (2) the full upstream suite with ICU loadable. Usage: tools/repo_tests.sh [repo_dir]
REPO=${1:-/repo}
cd "$REPO" || exit 2
echo "== baseline (no ICU) =="
/venv/bin/python -m pytest -ra -q -p no:cacheprovider --timeout=900 --continue-on-collection-errors -x --co -q >/dev/null 2>&1
/venv/bin/python -m pytest -q -p no:cacheprovider --timeout=900 --continue-on-collection-errors 2>&1 | tail -1
ICU=$(ls -d /root/miniconda/pkgs/icu-*/lib 2>/dev/null | head -1)
[ -z "$ICU" ] && ICU=/root/miniconda/lib
echo "== full suite (ICU from $ICU) =="
LD_LIBRARY_PATH=$ICU /venv/bin/python -m pytest -q -p no:cacheprovider --timeout=900 -n 12 2>&1 | tail -4
