#!/bin/bash
# usage: tools/cov.sh Cxx [tier]  - runs one check under coverage.py and reports the lines of the property's anchored
# files that the check never executed (a guide for extending generators; not part of any registered command).
ID=$1; TIER=${2:-quick}
W=/dev/shm/cov-$ID; rm -rf $W; mkdir -p $W/data
cat > $W/rc <<EOT
[run]
parallel = True
concurrency = multiprocessing
data_file = $W/data/.coverage
source = /repo/pyoda_time
EOT
ICU=$(ls -d /root/miniconda/pkgs/icu-*/lib 2>/dev/null | head -1)
cd "$(dirname "$0")/.." || exit 2
LD_LIBRARY_PATH=$ICU VERIF_ALT=1 VERIF_BOOTSTRAPPED=1 VERIF_ICU_MODE_RESOLVED=lib:$ICU PYTHONHASHSEED=0 /venv/bin/python -m coverage run --rcfile=$W/rc run.py $ID $TIER 2>&1 | tail -1
cd $W && /venv/bin/python -m coverage combine --rcfile=$W/rc >/dev/null 2>&1
FILES=$(python3 -c "
import json
for l in open('/verif/properties.jsonl'):
    d=json.loads(l)
    if d['id']=='$ID': print(','.join('/repo/'+f for f in d['anchors']['files'] if f.endswith('.py')))
")
/venv/bin/python -m coverage report --rcfile=$W/rc --show-missing --include="$FILES" > /verif/.work/cov-$ID.txt 2>&1
tail -3 /verif/.work/cov-$ID.txt
mkdir -p /verif/.work/covdata; cp $W/data/.coverage /verif/.work/covdata/$ID.coverage 2>/dev/null
rm -rf $W
