#!/usr/bin/env python3
"""Sensitivity probe: copy /repo's package to a scratch dir, apply one textual mutation, run a check's quick tier
against the copy (VERIF_REPO), expect exit 1, delete the copy.
usage: mut.py <Cxx> <relative file under pyoda_time> <old> <new> [tier]"""
import os, shutil, subprocess, sys, tempfile

prop, rel, old, new = sys.argv[1:5]
tier = sys.argv[5] if len(sys.argv) > 5 else "quick"
tmp = tempfile.mkdtemp(prefix="mut-", dir="/dev/shm")
try:
    shutil.copytree("/repo/pyoda_time", os.path.join(tmp, "pyoda_time"), ignore=shutil.ignore_patterns("__pycache__"))
    p = os.path.join(tmp, "pyoda_time", rel)
    s = open(p).read()
    if s.count(old) != 1:
        print(f"mutation site not unique: {s.count(old)} occurrences"); sys.exit(3)
    open(p, "w").write(s.replace(old, new))
    env = dict(os.environ, VERIF_REPO=tmp)
    r = subprocess.run(["/venv/bin/python", "/verif/run.py", prop, tier], env=env, capture_output=True, text=True, cwd="/verif")
    lines = [l for l in r.stdout.splitlines() if l.startswith(("VIOLATION", "  signature", "HARNESS", prop))]
    print("\n".join(lines[:12]))
    print("exit", r.returncode, "=> mutant", "DETECTED" if r.returncode == 1 else "MISSED")
finally:
    shutil.rmtree(tmp, ignore_errors=True)
