#!/venv/bin/python
"""MANIFEST.setup_cmd: make third-party tooling importable, offline, from the wheelhouse only.

hypothesis is normally already in /venv; jsonschema and atheris go to /verif/.deps (on sys.path after /venv).
Never fails the setup for optional packages: checks degrade (atheris campaigns are skipped and say so)."""
import importlib.util
import os
import subprocess
import sys

VERIF = os.path.dirname(os.path.dirname(os.path.abspath(__file__)))
DEPS = os.path.join(VERIF, ".deps")
WHEELS = "/opt/veriftools/wheels"
sys.path.append(DEPS)


def have(mod: str) -> bool:
    importlib.invalidate_caches()
    return importlib.util.find_spec(mod) is not None


def pip(*pkgs: str) -> int:
    env = dict(os.environ, PIP_NO_INDEX="1")
    cmd = [sys.executable, "-m", "pip", "install", "--quiet", "--no-index", "--find-links", WHEELS, "--target", DEPS, *pkgs]
    return subprocess.call(cmd, env=env)


rc = 0
if not have("hypothesis"):
    if pip("hypothesis") != 0:
        print("setup: hypothesis could not be installed", file=sys.stderr)
        rc = 1
for opt in ("jsonschema", "atheris"):
    if not have(opt):
        if pip(opt) != 0:
            print(f"setup: optional package {opt} not installed (checks degrade gracefully)", file=sys.stderr)
print("setup: hypothesis", have("hypothesis"), "jsonschema", have("jsonschema"), "atheris", have("atheris"))
sys.exit(rc)
