#!/usr/bin/env python3
"""Regenerates /verif/MANIFEST.json from the table below (keeps it schema-valid at all times)."""

import json
import os

VERIF = os.path.dirname(os.path.dirname(os.path.abspath(__file__)))

# id -> (category, technique, level text, level note, design ref)
CHECKS = {
    "C01": (
        "exploration",
        "exhaustive enumeration of the finite (calendar, day) and (y, m, d) spaces against the day-number line (round-trip + invariants)",
        "thorough tier enumerates every (calendar, day number) pair of every calendar id and every (y,m,d) triple in "
        "and just outside the tables (evidence exhaustive=true): day->date->day round trip, strict order of "
        "consecutive days, field ranges, day-of-year, year length = distance of year starts = sum of months, eras, "
        "cross-calendar round trip, rejection outside the range. quick tier: all year boundaries, all year tables, a "
        "seed-chosen twelfth of all years day by day.",
        "Trusted: CPython ints; the day-number line as the model. Internal entry LocalDate._ctor(days_since_epoch=, calendar=) is used for the day->date direction (it is what with_calendar / plus_days use).",
        "DESIGN.md §2 C01",
    ),
    "C02": (
        "exploration",
        "differential testing against an independent reference implementation of the published calendar algorithms and datetime.date (enumerated domain)",
        "Every year table and month start of the 16 arithmetic calendars, ISO against datetime.date over all 3652059 "
        "ordinals, and a day sample (quick) / every day (thorough, exhaustive=true) are compared with ref/calendars.py "
        "(Reingold-Dershowitz arithmetic from documented epochs) through LocalDate construction, with_calendar both "
        "ways, table queries and day_of_week. Catches a self-consistent but shifted calendar, which C01 cannot.",
        "Trusted: ref/calendars.py (self-tested against datetime and well-known correspondences at start-up), CPython datetime.",
        "DESIGN.md §2 C02",
    ),
    "C03": (
        "exploration",
        "Hypothesis property-based testing against an int reference model + exhaustive enumeration of Offset",
        "Generated-input search: every Duration/Instant/Offset operation is compared with Python int arithmetic "
        "on values biased to unit multiples +/-1, range edges and out-of-range values; Offset's 129601 values are "
        "enumerated. A green run is a search that found nothing (not a proof) except for the enumerated part.",
        "Trusted: CPython int/Fraction, Hypothesis, the documented ranges hard-coded in checks/c03.py.",
        "DESIGN.md §2 C03",
    ),
    "C10": (
        "exploration",
        "Hypothesis property-based testing against an int model of the local timeline + enumerated minute-boundary grid",
        "Generated (time, unit, amount) and (calendar, day, time, unit/period) cases, amounts biased to multiples of "
        "units-per-day +/-1 and far beyond 64 bits; results compared with (day*24h + ns) int arithmetic, raise iff the "
        "calendar range is left; accessor decomposition enumerated on the 4320-point minute-boundary grid.",
        "Trusted: CPython ints; day<->date bijection (C01) for rendering the expected date.",
        "DESIGN.md §2 C10",
    ),
    "C11": (
        "exploration",
        "Hypothesis property-based testing against an int model (instant, offset seconds, calendar id)",
        "Generated (instant, offset, calendar, second offset/calendar, duration, zone) tuples incl. double day carries "
        "and values within 18 h of the range ends: construction, with_offset, with_calendar, adjusters, +/- Duration, "
        "plus_<unit>, differences, projections/recombination, fixed-zone and zoned forms compared with int arithmetic; "
        "raise iff the Instant range or the calendar's day range is left.",
        "Trusted: CPython ints; zone.get_utc_offset (decided by C04-C06); day<->date bijection (C01).",
        "DESIGN.md §2 C11",
    ),
    "C12": (
        "exploration",
        "Hypothesis property-based testing with a per-type component-key oracle + generated method-call histories with a snapshot-at-birth invariant",
        "For 17 value types, triples drawn from small pools (equal-but-distinct objects built through different "
        "constructors, one-component differences, other calendars, unrelated operands) are compared with the documented "
        "component key: ==, !=, reflexivity/symmetry/transitivity, hash agreement, trichotomy, <=/>=, compare_to, min/max, "
        "ValueError across calendars, TypeError against unrelated types. Generated sequences of public method calls "
        "snapshot every value at birth (all public properties, rendered by the harness) and re-check all snapshots "
        "after every step, so no operation mutates its receiver, arguments or any earlier value.",
        "Trusted: the component keys in checks/c12.py (from the type documentation); day<->date bijection (C01).",
        "DESIGN.md §2 C12",
    ),
    "C13": (
        "exploration",
        "generated query histories built to alias cache slots, checked against cache-free oracles + generated line-level thread schedules and a 16-thread stress run",
        "Histories of year-start, caching-zone, provider, calendar-singleton and pattern/format-info queries are "
        "generated so that distinct keys collide (years 1024 apart, instants 512x32 days apart, > 500 cultures, a direct "
        "model test of the shared cache class); every answer must equal a cache-free evaluation (independent reference "
        "calendars, wrapped zone and file reference, fresh provider, cleared caches). The same queries run in 2-4 threads "
        "on cold shared objects under generated schedules that own every pre-emption inside the cache modules, and in "
        "16 real threads; identity claims (one zone object per id, singleton calendars, thread-local culture) must hold.",
        "Trusted: ref/calendars.py, ref/tzrules.py; CPython GIL semantics (line-granular pre-emption model).",
        "DESIGN.md §2 C13",
    ),
    "C14": (
        "exploration",
        "round-trip property testing (enumerated primitive domains + Hypothesis) and byte-for-byte differential against the reference compiler's files",
        "Every writer primitive is written with a sentinel and read back: equal value, exact consumption, documented "
        "encoded size; compact milliseconds over multiples of 30 min / 1 min / 1 s +/- {0,1,29,30,31} ms (all 172799999 "
        "values in thorough), all 129601 offsets, 7-bit borders of counts, every transition encoding class and border, "
        "strings/dictionaries with and without pool, all flag combinations of yearly rules, recurrences, alternating "
        "maps, generated precalculated zones; all 724 rule-based zones of the two real files are decoded by the repo "
        "reader and re-encoded by the repo writer to identical bytes.",
        "Trusted: ref/nzd.py for slicing zone payloads out of the real files; the documented size rules.",
        "DESIGN.md §2 C14",
    ),
    "C15": (
        "exploration",
        "differential / round-trip testing against the Python standard library datetime types (dates enumerated, rest Hypothesis-generated)",
        "stdlib -> pyoda -> stdlib identity for every datetime.date ordinal (enumerated) and for generated times, "
        "naive/aware datetimes and timedeltas over their full ranges; pyoda -> stdlib compared with an int reference "
        "conversion (same day number, floor to microseconds, toward zero for durations) for values of every calendar, "
        "and must raise exactly when the result is outside the stdlib range.",
        "Trusted: CPython datetime; int arithmetic; day<->date bijection (C01).",
        "DESIGN.md §2 C15",
    ),
    "C17": (
        "exploration",
        "differential testing in both directions against the standard library's ISO-8601 reader/writer (dates enumerated, rest Hypothesis-generated)",
        "Text of the built-in ISO patterns is read by datetime.fromisoformat and must give the same date/time/offset/"
        "instant (microsecond precision); text written by stdlib isoformat() must parse with the corresponding pattern "
        "to the same value; shape assertions (fixed widths, no trailing zeros / exactly 9 or 7 digits, terminal Z, "
        "sign and 4-digit padding for years outside 1-9999) come from the pattern documentation. All 3652059 dates and "
        "all whole-minute offsets are enumerated (all 129601 offsets in thorough).",
        "Trusted: CPython 3.12 datetime ISO parsing/formatting.",
        "DESIGN.md §2 C17",
    ),
    "C18": (
        "exploration",
        "Hypothesis property-based testing against a Python set/range reference model + enumerated (la, lb, delta) grid",
        "DateInterval pairs on the (la, lb, delta) grid in every calendar (full grid x 50 anchors per calendar in the "
        "thorough tier) and generated Interval pairs with unbounded/empty ends are compared with set operations on day "
        "numbers / int nanoseconds: len, iteration, membership, containment, intersection, union (defined iff "
        "overlapping or adjacent), commutativity, constructor and mixed-calendar rejections, YearMonth.to_date_interval.",
        "Trusted: Python sets/ranges; day<->date bijection (C01).",
        "DESIGN.md §2 C18",
    ),
    "C16": (
        "exploration",
        "enumeration + Hypothesis: inverse/monotone relations, the rules' definition re-derived from year starts, differential vs datetime.isocalendar, scans",
        "All 71 week-year rules x every calendar on contiguous windows around year boundaries and both range ends: "
        "(week-year, week, weekday) -> get_local_date round trip, week within weeks-in-week-year, (week-year, week) "
        "changes exactly on the rule's first day of week (and optionally at a year start for BCL-style rules) to the "
        "next week, regular rules equal their documented definition; ISO rule vs isocalendar on all 3652059 ordinals; "
        "n-th weekday vs a month scan over every (year, month, occurrence, weekday) (all years in thorough); "
        "next/previous/adjusters vs arithmetic on the weekday cycle incl. calendar range ends.",
        "Trusted: CPython datetime/calendar; day<->date bijection (C01).",
        "DESIGN.md §2 C16",
    ),
    "C04": (
        "exploration",
        "exhaustive interval walks with invariants (finite interval structure) + Hypothesis-generated instants, offsets and synthetic zones",
        "Every provider zone is walked from the start of time checking: looked-up interval contains the instant, "
        "intervals abut, neighbours differ, exactly one endless interval terminates the walk, reported offset = wall "
        "offset at start / end-1ns / interior, wall = standard + savings, wall within min/max offset, window queries "
        "equal the walked slice, caching wrapper = wrapped zone. thorough walks all ~1.84M intervals (exhaustive=true); "
        "quick walks all stored periods and sampled tail years. Non-terminating lookups are confirmed by a call budget.",
        "Trusted: CPython ints. Synthetic zones built from generated yearly rules extend the search beyond the bundled data.",
        "DESIGN.md §2 C04",
    ),
    "C05": (
        "exploration",
        "enumeration of transition-neighbourhood probes + Hypothesis, against a brute-force pre-image oracle over the independently decoded interval list",
        "For every transition of every canonical zone (all stored transitions and sampled tail years in quick, all "
        "through 9999 in thorough) 22 local date-times around the transition are mapped and compared with the set of "
        "intervals whose local span contains the value: count, instants (earlier first), gap neighbours, strict / "
        "lenient resolvers, start-of-day incl. wholly skipped days, explicit-offset constructor, round trip "
        "instant -> local -> map_local, non-ISO calendars, fixed zones.",
        "Trusted: ref/tzrules interval lists (validated against the library by C06), CPython ints.",
        "DESIGN.md §2 C05",
    ),
    "C06": (
        "exploration",
        "differential testing against an independent interpreter of the .nzd bytes and of the yearly rules (enumerated zones/periods/transitions)",
        "ref/nzd.py decodes both real database files from the documented format and ref/tzrules.py evaluates the "
        "recurring tails with plain Gregorian arithmetic; every stored period and the rule-generated transitions of "
        "sampled years (quick) or every interval through 9999 (thorough, exhaustive=true) must equal the library's "
        "zone intervals name-for-name and nanosecond-for-nanosecond; plus id list, aliases under their alias id, "
        "version, validate(), every fixed-offset id (all 129601 in thorough) and near-miss ids resolving to nothing.",
        "Trusted: ref/nzd.py + ref/tzrules.py (share no code with pyoda_time), ref/calendars Gregorian arithmetic.",
        "DESIGN.md §2 C06",
    ),
    "C07": (
        "exploration",
        "Hypothesis property-based testing with grammar-generated patterns: round-trip and metamorphic (format-parse-format) relations, projection oracle",
        "Grammar-generated patterns for the 7 pattern types x all available cultures (every culture visited per type) x "
        "values in all calendars: formatting is deterministic; parse(format(v)) succeeds for representable values and "
        "equals the projection of v onto the pattern's fields (absent fields from the template, fractions truncated); "
        "format(parse(format(v))) == format(v) for every value; the built-in round-trip / ISO patterns (incl. reduced- and variable-precision ones) and composite patterns recover every "
        "value; date-time patterns embed ld<>/lt<> patterns. Applicability rules stated in the property are enforced by construction and counted in the evidence.",
        "Trusted: the harness-side pattern tokenizer and projection (checks/c07.py); ICU culture data only as a source of strings. Open findings are listed in known_findings.json.",
        "DESIGN.md §2 C07",
    ),
    "C08": (
        "exploration",
        "Hypothesis property-based testing with grammar-generated and mutated pattern texts and input texts, plus a coverage-guided atheris (libFuzzer) campaign over (pattern, text) and pattern texts; result-validity oracle",
        "For 7 pattern classes x cultures: creation of grammar-generated, edited and junk pattern texts must return a "
        "pattern or raise InvalidPatternError; for every created pattern, formatted values and their mutations (edits, "
        "out-of-range and 40-digit runs, NUL, non-ASCII digits, 10 kB) are parsed: no exception may escape, a success "
        "must carry a value that re-validates through the public constructor and formats again, a failure must expose an "
        "UnparsableValueError on request. Root causes are bucketed by (exception type, innermost pyoda_time frame).",
        "Trusted: the validity predicates in harness/text.py (public constructors of each value type).",
        "DESIGN.md §2 C08",
    ),
    "C09": (
        "exploration",
        "Hypothesis property-based testing: day-number and month-line reference models, documented year rules, algebraic laws of Period.between/normalize",
        "Generated (calendar, date, amount) and (calendar, start, end, unit subset) cases over all calendars: "
        "plus_days/plus_weeks against the day-number line, plus_months against a month line built from the public "
        "tables, plus_years against the documented rules (Hebrew Adar/30th rules re-implemented from the docs), raise "
        "iff the calendar range is left; Period.between: result between start and end, exact with the finest unit, "
        "one sign, only requested units, single unit maximal; normalize/to_duration preserve the fixed-length total. "
        "Thorough adds exhaustive (date, n in [-40,40]) month/year arithmetic on the small calendars.",
        "Trusted: CPython ints; ref/calendars.py Hebrew month lengths; day<->date bijection (C01).",
        "DESIGN.md §2 C09",
    ),
    "C19": (
        "exploration",
        "model-based testing of generated operation sequences + generated line-level thread schedules (cooperative scheduler) with a linearizability oracle",
        "Generated sequences of clock operations are compared step by step with the (now, auto-advance) model, "
        "overflowing steps must raise and leave the state unchanged, and an instrumented non-re-entrant lock turns 'the "
        "call never completes' into an immediate deterministic report. 2-3 threads x <=4 operations run under generated "
        "schedules that own every line-level pre-emption inside the clock and its Instant/Duration arithmetic; results "
        "must equal some sequential interleaving. A 16-thread stress run checks distinct reads and no lost advances. "
        "ZonedClock getters and SystemClock are checked against the same model / the OS clock.",
        "Trusted: CPython GIL semantics (no pre-emption finer than a source line is modelled), the model in checks/c19.py.",
        "DESIGN.md §2 C19",
    ),
    "C20": (
        "fault_enumeration",
        "fault injection: enumerated truncations, deterministic structural sweeps (field ids, inflated counts), Hypothesis-generated k-byte corruptions biased to structural bytes found by an independent parser, and a coverage-guided atheris (libFuzzer) campaign over a small real database",
        "Both real .nzd files are truncated at every prefix (thorough; structural prefixes and 1500 seed-chosen in "
        "quick) and corrupted by 1-4 byte substitutions/insertions/deletions aimed at field ids, length varints, counts, "
        "type/flag bytes, transition markers and pool indices; after each fault the stream is loaded, ids listed and the "
        "affected (plus unaffected) zones fetched through for_id and DateTimeZoneCache: outcome must be success or "
        "InvalidPyodaDataError; non-termination is decided by a deterministic call budget.",
        "Trusted: ref/nzd.py structure map of the pristine files. Memory exhaustion = MemoryError or peak RSS growing by more than 200 MB while handling one damaged stream.",
        "DESIGN.md §2 C20",
    ),
}

NOT_YET = {}

ALL = [f"C{n:02d}" for n in range(1, 21)]


def main() -> None:
    checks = []
    for pid in ALL:
        if pid not in CHECKS:
            continue
        cat, tech, text, note, ref = CHECKS[pid]
        checks.append(
            {
                "property_id": pid,
                "quick_cmd": f"/venv/bin/python run.py {pid} quick",
                "thorough_cmd": f"/venv/bin/python run.py {pid} thorough",
                "evidence_file": f"/verif/evidence/{pid}.json",
                "replay_cmd_template": f"/venv/bin/python run.py {pid} --replay {{path}}",
                "engine": "harness",
                "level_claimed": {"category": cat, "text": text, "design_ref": ref},
                "level_note": note,
                "technique": tech,
            }
        )
    na = [
        {"property_id": pid, "reason": NOT_YET.get(pid, "check not built yet in this session (work in progress; see DESIGN.md §2 for the planned check)")}
        for pid in ALL
        if pid not in CHECKS
    ]
    manifest = {
        "version": 1,
        "setup_cmd": "/venv/bin/python tools/setup.py",
        "hooks": {
            "guard": "PYODA_TIME_VERIF",
            "enable": "no instrumentation hooks are needed: checks import /repo's working tree directly (editable install) and own schedules from outside via sys.settrace",
            "baseline_off_cmd": "cd /repo && /venv/bin/python -m pytest -ra -q -p no:cacheprovider --timeout=900 --continue-on-collection-errors",
            "source_commits": [],
            "add_only": True,
        },
        "engines": [
            {
                "name": "harness",
                "path": "/verif/run.py",
                "serves_properties": [c["property_id"] for c in checks],
                "kind_free_text": "Hypothesis 6.168 strategies / stateful machines, exhaustive enumeration of finite domains over a 16-process pool, atheris coverage-guided fuzzing for byte-level surfaces; failures bucketed by root-cause signature, shrunk to JSON replay files",
            }
        ],
        "checks": checks,
        "not_applicable": na,
        "notes": "All checks: exit 0 = held, exit 1 + VIOLATION line = unlisted violation, exit 2 = harness error. KNOWN-FINDING lines come from known_findings.json (committed).",
    }
    with open(os.path.join(VERIF, "MANIFEST.json"), "w") as fh:
        json.dump(manifest, fh, indent=1)
        fh.write("\n")


if __name__ == "__main__":
    main()
