#!/usr/bin/env python3
"""Prints the prompt given to an independent sub-agent that seeds a property-breaking change (only the property text
and a scratch worktree; nothing from /verif)."""
import json, sys
pid = sys.argv[1]
first = int(sys.argv[2]) if len(sys.argv) > 2 else 1  # number of the first change (round 2 uses 3)
focus_ix = [int(x) for x in sys.argv[3].split(",")] if len(sys.argv) > 3 else []
props = {json.loads(l)["id"]: json.loads(l) for l in open("/verif/properties.jsonl")}
p = props[pid]
wt = f"/tmp/seed/{pid}"
out = f"/tmp/seed/{pid}-out"
mech = p["anchors"].get("mechanism", [])
FOCUS = ""
if focus_ix:
    FOCUS = "  Parts of the implementation the property's own description names, on which to concentrate in this round (pick two different ones):\n" + "".join(
        f"    - {mech[i]['name']} (in {mech[i]['where']})\n" for i in focus_ix if i < len(mech)
    )
N1, N2 = first, first + 1
print(f"""You are helping to evaluate a verification effort for the open-source Python library pyoda-time (a pure-Python port of Noda Time: date/time value types, calendars, tz database reader/writer, text patterns).

You have your own scratch git worktree of the library at {wt} (a detached checkout). Work ONLY inside {wt} and {out}. Do NOT read or touch /verif or /repo (they are off limits; reading them would invalidate the exercise).

THE PROPERTY (this is all you get; it is a semantic property the library is supposed to satisfy):

  Title: {p['title']}
  Statement: {p['statement']}
  Quantified over: {p['quantifier']['text']}
{FOCUS}
YOUR TASK: produce up to TWO different, realistic source changes to the library (under {wt}/pyoda_time only) that each BREAK this property while the code still imports and the existing test-suite still passes. Think of the kind of bug a maintainer could plausibly introduce in a refactor or an optimisation: an off-by-one in a rarely hit branch, a wrong constant for one calendar/unit, a boundary comparison, a cache key that aliases, two sites that each look fine alone. IMPORTANT: prefer changes that need something SPECIFIC to manifest (an unusual input, a particular calendar/year/offset, a multi-step sequence of operations, a boundary value, a specific history) rather than ones that ordinary use or a trivial smoke test would expose at once. Do not add dead code, do not key the bug on magic constants unrelated to the domain, do not make it depend on environment variables or randomness.

For EACH change write into {out}/<n>/ (n = {N1}, {N2}):
  - patch.diff : output of `git -C {wt} diff` for that change alone (apply one change at a time; `git -C {wt} checkout -- .` between them)
  - demo.py    : a small stand-alone program using only the public behaviour of the library that exits with status 0 on the UNCHANGED library and a non-zero status (assertion failure) WITH the change applied, demonstrating the property violation
  - meta.json  : {{"property": "{pid}", "summary": "...what was changed...", "needs": "...what specific input/sequence is needed for it to manifest...", "files": [...]}}

ENVIRONMENT FACTS YOU NEED:
  - The library needs ICU at import time. Always run python like this (PYTHONPATH makes your worktree win over the installed copy):
      cd {wt} && LD_LIBRARY_PATH=/root/miniconda/pkgs/icu-73.1-h6a678d5_0/lib PYTHONPATH={wt} /venv/bin/python {out}/{N1}/demo.py
  - Existing test-suite, which MUST still pass with your change applied (it takes ~25 s):
      cd {wt} && LD_LIBRARY_PATH=/root/miniconda/pkgs/icu-73.1-h6a678d5_0/lib /venv/bin/python -m pytest -q -p no:cacheprovider -n 8 --timeout=900
    Expected on the unchanged tree: "10356 passed, 14 skipped, 12 xfailed". With your change the result must be identical (no new failures). If a change makes any existing test fail, discard or refine it.
  - There is no network. Do not install anything.
  - Never use `git stash` (the stash is shared with other worktrees of the same repository); use `git diff > file`, `git checkout -- .` and `git apply file`.

VERIFY YOURSELF before finishing, for each change: (a) demo passes on the unchanged worktree, (b) demo fails with the change applied, (c) the full test-suite still passes with the change applied. Leave the worktree clean (`git -C {wt} checkout -- .`) when you are done. In your final message list, for each change, the summary, what it needs to manifest, and the commands you ran with their results. If you could only produce one good change, that is fine.""")
