#!/usr/bin/env python3
"""Sensitivity probes: each entry of tools/mutants.json is a one-site textual change of the library; it is applied to a
scratch copy in /dev/shm and the property's quick tier is run against the copy (VERIF_REPO). Expected: exit 1.
usage: mutbatch.py [index ...]"""
import json, os, shutil, subprocess, sys, tempfile

ms = json.load(open("/verif/tools/mutants.json"))
sel = [int(x) for x in sys.argv[1:]] or range(len(ms))
missed = []
for i in sel:
    m = ms[i]
    if m["old"] == m["new"]:
        continue
    tmp = tempfile.mkdtemp(prefix="mutb-", dir="/dev/shm")
    try:
        shutil.copytree("/repo/pyoda_time", os.path.join(tmp, "pyoda_time"), ignore=shutil.ignore_patterns("__pycache__"))
        p = os.path.join(tmp, "pyoda_time", m["file"])
        s = open(p).read()
        if s.count(m["old"]) != 1:
            print(f"#{i} {m['prop']} {m['file']}: site not unique ({s.count(m['old'])})", flush=True)
            continue
        open(p, "w").write(s.replace(m["old"], m["new"]))
        r = subprocess.run(["/venv/bin/python", "/verif/run.py", m["prop"], "quick"], env=dict(os.environ, VERIF_REPO=tmp), capture_output=True, text=True, cwd="/verif")
        sigs = [l.strip() for l in r.stdout.splitlines() if l.strip().startswith("signature=")]
        print(f"#{i} {m['prop']} {m['note']}: exit {r.returncode} {'DETECTED' if r.returncode == 1 else 'MISSED' if r.returncode == 0 else 'HARNESS-ERROR'} {sigs[:2]}", flush=True)
        if r.returncode != 1:
            missed.append(i)
            if r.returncode == 2:
                print(r.stdout[-600:], flush=True)
    finally:
        shutil.rmtree(tmp, ignore_errors=True)
print("missed:", missed)
