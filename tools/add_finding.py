#!/usr/bin/env python3
"""usage: add_finding.py <property> <fixed|open> <commit or -> <signature> <what...>"""
import json, sys, os
p = os.path.join(os.path.dirname(os.path.dirname(os.path.abspath(__file__))), "known_findings.json")
d = json.load(open(p))
prop, status, commit, sig = sys.argv[1:5]
what = " ".join(sys.argv[5:])
e = {"property": prop, "status": status, "signature": sig}
if status == "fixed":
    e["commit"] = commit
    e["what"] = f"fixed: property={prop} {commit} {what}"
else:
    e["what"] = what
d["findings"].append(e)
json.dump(d, open(p, "w"), indent=1)
open(p, "a").write("\n")
