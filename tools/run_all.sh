#!/bin/bash
# usage: tools/run_all.sh [tier] [ids...]   - runs the registered command of every check (or the given ids), prints one line each
cd "$(dirname "$0")/.." || exit 2
TIER=${1:-quick}; shift
IDS=${@:-C01 C02 C03 C04 C05 C06 C07 C08 C09 C10 C11 C12 C13 C14 C15 C16 C17 C18 C19 C20}
rc_all=0
for id in $IDS; do
  out=$(/venv/bin/python run.py $id $TIER 2>&1); rc=$?
  echo "$out" | grep -E "^VIOLATION|^HARNESS|^KNOWN-FINDING" | cut -c1-200
  echo "$out" | tail -1 | cut -c1-220
  [ $rc -ne 0 ] && { echo "  -> exit $rc"; rc_all=1; }
done
exit $rc_all
