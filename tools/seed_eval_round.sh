#!/bin/bash
# usage: tools/seed_eval_round.sh <first n> <second n> [ids...]  - evaluates the sub-agents' changes n of every property (scratch mode)
cd "$(dirname "$0")/.." || exit 2
A=$1; B=$2; shift 2
IDS=${@:-C01 C02 C03 C04 C05 C06 C07 C08 C09 C10 C11 C12 C13 C14 C15 C16 C17 C18 C19 C20}
for id in $IDS; do for n in $A $B; do
  [ -f /tmp/seed/$id-out/$n/patch.diff ] || { echo "== $id $n: no patch"; continue; }
  echo "== $id $n"; python3 tools/seed_eval.py $id $n --scratch 2>&1 | tail -2 | cut -c1-300
done; done
