#!/venv/bin/python
"""Coverage-guided campaign for C08 (atheris on libFuzzer), run as a sub-process by checks/c08.task_atheris.

usage: c08_fuzz.py <out_dir> <corpus_dir> [libFuzzer flags]

Input layout: byte 0 selects an entry of the fixed (type, pattern, culture) panel built by checks.c08.fuzz_panel();
values >= 0xF0 select "pattern mode" instead (byte 0 & 7 = type): the rest of the input is then the *pattern text*.
The rest of the input (UTF-8, undecodable bytes replaced) is the text to parse. The oracle is inside the target and is
the one the Hypothesis tasks use (checks.c08.check_parse / try_create): parse returns a result object, a success
carries a valid value, a failure raises only on request; creation raises only InvalidPatternError. Everything else is
bucketed by (type, innermost pyoda_time frame) or mismatch signature; the first input per bucket is saved and the
campaign continues. The parser is pure Python (cursor + per-field actions), so coverage guidance applies.
"""
import json
import os
import sys

VERIF = os.path.dirname(os.path.dirname(os.path.abspath(__file__)))
sys.path.insert(0, VERIF)
from harness import bootstrap  # noqa: E402

bootstrap.ensure_env()

import atheris  # noqa: E402

with atheris.instrument_imports(include=["pyoda_time.text", "pyoda_time.text.patterns"]):
    import pyoda_time  # noqa: F401
    import pyoda_time.text  # noqa: F401

import traceback  # noqa: E402

bootstrap.pin_culture()
from checks import c08  # noqa: E402
from harness import text as T  # noqa: E402
from harness.core import InvalidCase, Mismatch  # noqa: E402

OUT = sys.argv[1]
PANEL = c08.fuzz_panel()
PATS = [T.create(t, p, cn) for t, p, cn in PANEL]
STATS = {"execs": 0, "accepted": 0, "created": 0, "buckets": {}}


def bucket_of(e: BaseException) -> str:
    if isinstance(e, Mismatch):
        return "mismatch:" + e.sig
    tb = traceback.extract_tb(e.__traceback__)
    inner = None
    for fr in tb:
        if "pyoda_time" in fr.filename and "_preconditions" not in fr.filename:
            inner = fr
    where = f"{os.path.basename(inner.filename)}:{inner.name}" if inner else "no-pyoda-frame"
    return f"{type(e).__name__}@{where}"


def TestOneInput(data: bytes) -> None:  # noqa: N802
    if not data:
        return
    STATS["execs"] += 1
    text = data[1:].decode("utf-8", "replace")
    try:
        if data[0] >= 0xF0:
            t = T.TYPES[(data[0] & 7) % len(T.TYPES)]
            if c08.fuzz_pattern_mode(t, text):
                STATS["created"] += 1
        else:
            ix = data[0] % len(PANEL)
            if c08.check_parse(PANEL[ix][0], PATS[ix], text, "fuzz"):
                STATS["accepted"] += 1
    except InvalidCase:
        pass
    except (MemoryError, RecursionError) as e:
        save(data, type(e).__name__)
    except Exception as e:  # noqa: BLE001
        save(data, bucket_of(e))
    if STATS["execs"] % 500 == 0:
        flush()


def save(data: bytes, bucket: str) -> None:
    b = STATS["buckets"]
    if bucket not in b:
        b[bucket] = {"n": 0, "file": f"finding-{len(b)}.bin"}
        with open(os.path.join(OUT, b[bucket]["file"]), "wb") as fh:
            fh.write(data)
    b[bucket]["n"] += 1
    flush()


def flush() -> None:
    with open(os.path.join(OUT, "stats.json"), "w") as fh:
        json.dump(STATS, fh)


def main() -> None:
    argv = [sys.argv[0]] + sys.argv[2:]
    atheris.Setup(argv, TestOneInput)
    try:
        atheris.Fuzz()
    finally:
        flush()


if __name__ == "__main__":
    main()
