#!/venv/bin/python
"""Coverage-guided campaign for C20 (atheris on libFuzzer), run as a sub-process by checks/c20.task_atheris.

usage: c20_fuzz.py <prefix_file> <out_dir> <corpus_dir> [libFuzzer flags]

The fuzzed input is the *tail* of a small but real tz database (version field, a handful of real zone fields, a
rewritten alias map); the target prepends the fixed prefix (header, string pool, Windows mapping), so mutations land
in decoding logic rather than in 20 kB of pooled strings. The oracle is inside the target: load + list + fetch must
succeed or raise InvalidPyodaDataError. Any other exception is bucketed by (type, innermost pyoda_time frame); the
first input of every bucket is saved to <out_dir>/finding-<n>.bin and the campaign continues (a fuzzer that stops at
the first shallow failure hides what lies behind it). Hangs / memory blow-ups are left to libFuzzer (-timeout,
-rss_limit_mb), whose artifact the parent re-evaluates under its own deterministic call budget.
"""
import json
import os
import sys

VERIF = os.path.dirname(os.path.dirname(os.path.abspath(__file__)))
sys.path.insert(0, VERIF)
from harness import bootstrap  # noqa: E402

bootstrap.ensure_env()

import atheris  # noqa: E402

with atheris.instrument_imports(include=["pyoda_time.time_zones", "pyoda_time.time_zones.io"]):
    import pyoda_time  # noqa: F401
    from pyoda_time.time_zones import DateTimeZoneCache
    from pyoda_time.time_zones._tzdb_date_time_zone_source import TzdbDateTimeZoneSource
    from pyoda_time.utility import InvalidPyodaDataError

import io  # noqa: E402
import traceback  # noqa: E402

PREFIX = open(sys.argv[1], "rb").read()
OUT = sys.argv[2]
STATS = {"execs": 0, "loaded": 0, "fetched": 0, "rejected": 0, "buckets": {}}


def exercise(data: bytes) -> None:
    try:
        src = TzdbDateTimeZoneSource.from_stream(io.BytesIO(data))
    except InvalidPyodaDataError:
        STATS["rejected"] += 1
        return
    STATS["loaded"] += 1
    try:
        ids = list(src.get_ids())
        _ = src.version_id
    except InvalidPyodaDataError:
        return
    try:
        cache = DateTimeZoneCache(src)
    except InvalidPyodaDataError:
        cache = None
    for k, zid in enumerate(ids[:40]):
        for fn in ((lambda: src.for_id(zid)), (lambda: cache[zid]) if cache is not None and k % 4 == 0 else None):
            if fn is None:
                continue
            try:
                z = fn()
                STATS["fetched"] += 1
                _ = (z.id, z.min_offset, z.max_offset)
            except InvalidPyodaDataError:
                pass


def bucket_of(e: BaseException) -> str:
    tb = traceback.extract_tb(e.__traceback__)
    inner = None
    for fr in tb:
        if "pyoda_time" in fr.filename and "_preconditions" not in fr.filename:
            inner = fr
    where = f"{os.path.basename(inner.filename)}:{inner.name}" if inner else "no-pyoda-frame"
    return f"{type(e).__name__}@{where}"


def TestOneInput(tail: bytes) -> None:  # noqa: N802
    STATS["execs"] += 1
    try:
        exercise(PREFIX + tail)
    except (MemoryError, RecursionError) as e:
        save(tail, f"{type(e).__name__}")
    except Exception as e:  # noqa: BLE001
        save(tail, bucket_of(e))
    if STATS["execs"] % 100 == 0:
        flush()


def save(tail: bytes, bucket: str) -> None:
    b = STATS["buckets"]
    if bucket not in b:
        b[bucket] = {"n": 0, "file": f"finding-{len(b)}.bin"}
        with open(os.path.join(OUT, b[bucket]["file"]), "wb") as fh:
            fh.write(tail)
    b[bucket]["n"] += 1
    flush()


def flush() -> None:
    with open(os.path.join(OUT, "stats.json"), "w") as fh:
        json.dump(STATS, fh)


def main() -> None:
    import atexit

    atexit.register(flush)
    argv = [sys.argv[0]] + sys.argv[3:]
    atheris.Setup(argv, TestOneInput)
    try:
        atheris.Fuzz()
    finally:
        flush()


if __name__ == "__main__":
    main()
