"""Text pattern toolkit shared by C07 / C08 / C13: pattern classes per value type, cultures, JSON <-> value
conversion, validity predicates, and a token grammar for pattern texts."""

from __future__ import annotations

from functools import lru_cache
from typing import Any

from hypothesis import strategies as st

from harness import pyo

DAY = pyo.DAY
INST_MIN = -4371222 * DAY
INST_MAX = (2932896 + 1) * DAY - 1
DUR_MIN = -(1 << 30) * DAY
DUR_MAX = (1 << 30) * DAY - 1

TYPES = ["date", "time", "datetime", "instant", "offset", "duration", "annual"]


def pattern_class(t: str):
    from pyoda_time import text as T

    return {
        "date": T.LocalDatePattern,
        "time": T.LocalTimePattern,
        "datetime": T.LocalDateTimePattern,
        "instant": T.InstantPattern,
        "offset": T.OffsetPattern,
        "duration": T.DurationPattern,
        "annual": T.AnnualDatePattern,
    }[t]


@lru_cache(maxsize=None)
def culture(name: str):
    from pyoda_time._compatibility._culture_info import CultureInfo

    if name == "":
        return CultureInfo.invariant_culture
    return CultureInfo(name)


@lru_cache(maxsize=None)
def culture_names() -> tuple[str, ...]:
    """All culture names available ('' = invariant first). Only the invariant culture exists with the ICU stub."""
    from pyoda_time._compatibility._culture_info import CultureInfo
    from pyoda_time._compatibility._culture_types import CultureTypes

    names = {""}
    try:
        for c in CultureInfo.get_cultures(CultureTypes.NEUTRAL_CULTURES | CultureTypes.SPECIFIC_CULTURES):
            names.add(c.name)
    except Exception:  # noqa: BLE001
        pass
    return tuple(sorted(names))


def create(t: str, pattern_text: str, cname: str, template: dict | None = None):
    cls = pattern_class(t)
    p = cls.create(pattern_text, culture(cname))
    if template is not None and hasattr(p, "with_template_value"):
        p = p.with_template_value(make_value(t, template))
    return p


# composite patterns: most precise first; the predicate says whether the component represents the value fully
COMPOSITES = {
    "time": [("HH:mm:ss.FFFFFFFFF", lambda v: True), ("HH:mm:ss", lambda v: v.nanosecond_of_second == 0), ("HH:mm", lambda v: v.nanosecond_of_day % (60 * 10**9) == 0)],
    "date": [("uuuu-MM-dd", lambda v: True), ("uuuu-MM", lambda v: v.day == 1)],
    "datetime": [("uuuu-MM-dd'T'HH:mm:ss.FFFFFFFFF", lambda v: True), ("uuuu-MM-dd'T'HH:mm", lambda v: v.nanosecond_of_day % (60 * 10**9) == 0), ("uuuu-MM-dd", lambda v: v.nanosecond_of_day == 0)],
    "instant": [("uuuu-MM-dd'T'HH:mm:ss.FFFFFFFFF'Z'", lambda v: True), ("uuuu-MM-dd'T'HH:mm'Z'", lambda v: v._time_since_epoch._nanosecond_of_floor_day % (60 * 10**9) == 0)],
    "offset": [("+HH:mm:ss", lambda v: True), ("+HH:mm", lambda v: v.seconds % 60 == 0), ("+HH", lambda v: v.seconds % 3600 == 0)],
    "duration": [("-D:hh:mm:ss.FFFFFFFFF", lambda v: True), ("-D:hh:mm", lambda v: v.to_nanoseconds() % (60 * 10**9) == 0)],
    "annual": [("MM-dd", lambda v: True), ("MM", lambda v: v.day == 1)],
}


def composite(t: str, cname: str = "", upto: int = 9):
    """(composite pattern, [(component pattern, predicate)]) built with the public CompositePatternBuilder."""
    from pyoda_time.text._composite_pattern_builder import CompositePatternBuilder

    b = CompositePatternBuilder()
    comps = []
    for text, pred in COMPOSITES[t][:upto]:
        pat = create(t, text, cname)
        b.add(pat, pred)
        comps.append((pat, pred))
    return b.build(), comps


def make_value(t: str, j: dict) -> Any:
    from pyoda_time import AnnualDate, Duration, Instant, LocalTime, Offset

    if t == "date":
        return pyo.date_from_day(j["cal"], j["n"])
    if t == "time":
        return LocalTime.from_nanoseconds_since_midnight(j["ns"])
    if t == "datetime":
        return pyo.ldt_from(j["cal"], j["n"], j["ns"])
    if t == "instant":
        return Instant._ctor(days=j["i"] // DAY, nano_of_day=j["i"] % DAY)
    if t == "offset":
        return Offset.from_seconds(j["s"])
    if t == "duration":
        return Duration.from_nanoseconds(j["ns"])
    if t == "annual":
        return AnnualDate(j["m"], j["d"])
    raise KeyError(t)


def value_in_domain(t: str, j: dict) -> bool:
    try:
        if t in ("date", "datetime"):
            c = pyo.cal(j["cal"])
            if not c._min_days <= j["n"] <= c._max_days:
                return False
        if t in ("time", "datetime") and not 0 <= j["ns"] < DAY:
            return False
        if t == "instant" and not INST_MIN <= j["i"] <= INST_MAX:
            return False
        if t == "offset" and abs(j["s"]) > 64800:
            return False
        if t == "duration" and not DUR_MIN <= j["ns"] <= DUR_MAX:
            return False
        if t == "annual":
            import calendar

            if not (1 <= j["m"] <= 12 and 1 <= j["d"] <= calendar.monthrange(2000, j["m"])[1]):
                return False
    except (KeyError, TypeError, ValueError):
        return False
    return True


def describe(t: str, v: Any) -> str:
    """Harness-side rendering of a value (never repr(): month-name formatting of months 13+ can raise)."""
    if t == "date":
        return pyo.fmt_date(v)
    if t == "time":
        return f"T{v.nanosecond_of_day}"
    if t == "datetime":
        return pyo.fmt_date(v.date) + f"T{v.nanosecond_of_day}"
    if t == "instant":
        return f"I{v._time_since_epoch.to_nanoseconds()}"
    if t == "offset":
        return f"O{v.seconds}"
    if t == "duration":
        return f"D{v.to_nanoseconds()}"
    if t == "annual":
        return f"A{v.month}-{v.day}"
    return "?"


def value_key(t: str, v: Any):
    if t == "date":
        return (v.calendar.id, v.year, v.month, v.day)
    if t == "time":
        return v.nanosecond_of_day
    if t == "datetime":
        return (v.calendar.id, v.year, v.month, v.day, v.nanosecond_of_day)
    if t == "instant":
        return v._time_since_epoch.to_nanoseconds()
    if t == "offset":
        return v.seconds
    if t == "duration":
        return v.to_nanoseconds()
    if t == "annual":
        return (v.month, v.day)
    raise KeyError(t)


def validity_error(t: str, v: Any) -> str | None:
    """None if v is a valid value of its type (re-validated through the public constructors), else a description."""
    from pyoda_time import AnnualDate, Duration, Instant, LocalDate, LocalDateTime, LocalTime, Offset

    try:
        if t == "date":
            if not isinstance(v, LocalDate):
                return f"type {type(v).__name__}"
            if LocalDate(v.year, v.month, v.day, v.calendar) != v:
                return "date not reconstructible"
            c = v.calendar
            if not c._min_days <= v._days_since_epoch <= c._max_days:
                return "day outside calendar range"
        elif t == "time":
            if not isinstance(v, LocalTime) or not 0 <= v.nanosecond_of_day < DAY:
                return f"nanosecond_of_day {getattr(v, 'nanosecond_of_day', None)}"
        elif t == "datetime":
            if not isinstance(v, LocalDateTime):
                return f"type {type(v).__name__}"
            e = validity_error("date", v.date) or validity_error("time", v.time_of_day)
            if e:
                return e
        elif t == "instant":
            if not isinstance(v, Instant) or not INST_MIN <= v._time_since_epoch.to_nanoseconds() <= INST_MAX:
                return "instant out of range"
            d = v._time_since_epoch
            if not 0 <= d._nanosecond_of_floor_day < DAY:
                return "instant not normalised"
        elif t == "offset":
            if not isinstance(v, Offset):
                return f"type {type(v).__name__}"
            Offset.from_seconds(v.seconds)
        elif t == "duration":
            if not isinstance(v, Duration) or not DUR_MIN <= v.to_nanoseconds() <= DUR_MAX or not 0 <= v._nanosecond_of_floor_day < DAY:
                return "duration out of range / not normalised"
        elif t == "annual":
            if not isinstance(v, AnnualDate):
                return f"type {type(v).__name__}"
            AnnualDate(v.month, v.day)
    except (ValueError, OverflowError) as e:
        return f"{type(e).__name__}: {e}"
    return None


# ---------------------------------------------------------------------------------------------------------------
# value strategies (JSON)
# ---------------------------------------------------------------------------------------------------------------


def st_value(t: str, cals: tuple[str, ...] | None = None) -> st.SearchStrategy[dict]:
    from harness.gen import ints_biased

    units = (100, 10**3, 10**6, 10**9, 60 * 10**9, 3600 * 10**9, DAY)
    if t == "date":
        return pyo.st_cal_day(cals).map(lambda cd: {"cal": cd[0], "n": cd[1]})
    if t == "time":
        return pyo.st_nod().map(lambda ns: {"ns": ns})
    if t == "datetime":
        return st.tuples(pyo.st_cal_day(cals), pyo.st_nod()).map(lambda x: {"cal": x[0][0], "n": x[0][1], "ns": x[1]})
    if t == "instant":
        return st.one_of(ints_biased(INST_MIN, INST_MAX, units), ints_biased(-40000 * DAY, 40000 * DAY, units)).map(lambda i: {"i": i})
    if t == "offset":
        return ints_biased(-64800, 64800, (60, 900, 3600)).map(lambda s: {"s": s})
    if t == "duration":
        return st.one_of(ints_biased(DUR_MIN, DUR_MAX, units), ints_biased(-400 * DAY, 400 * DAY, units)).map(lambda n: {"ns": n})
    if t == "annual":
        return st.tuples(st.integers(1, 12), st.integers(1, 31)).map(lambda md: {"m": md[0], "d": min(md[1], [31, 29, 31, 30, 31, 30, 31, 31, 30, 31, 30, 31][md[0] - 1])})
    raise KeyError(t)


# ---------------------------------------------------------------------------------------------------------------
# pattern grammar: tokens -> pattern text
# ---------------------------------------------------------------------------------------------------------------

# field letter -> allowed repeat counts (valid ones) per value type
DATE_FIELDS = {"y": [2, 4], "u": [4], "M": [1, 2, 3, 4], "d": [1, 2, 3, 4], "g": [1, 2], "c": [1]}
TIME_FIELDS = {"H": [1, 2], "h": [1, 2], "m": [1, 2], "s": [1, 2], "f": list(range(1, 10)), "F": list(range(1, 10)), "t": [1, 2]}
FIELDS = {
    "date": DATE_FIELDS,
    "time": TIME_FIELDS,
    "datetime": {**DATE_FIELDS, **TIME_FIELDS},
    "instant": {**{k: v for k, v in DATE_FIELDS.items() if k != "c"}, **TIME_FIELDS},
    "offset": {"H": [1, 2], "m": [1, 2], "s": [1, 2], "+": [1], "-": [1]},
    "duration": {"D": [1, 2, 3], "H": [1, 2], "h": [1, 2], "M": [1, 2], "m": [1, 2], "S": [1, 2], "s": [1, 2], "f": list(range(1, 10)), "F": list(range(1, 10)), "+": [1], "-": [1]},
    "annual": {"M": [1, 2, 3, 4], "d": [1, 2]},
}
SEPARATORS = ["-", "/", ":", " ", ".", ";", "'T'", ",", "'at'", "\\T", "'o''clock'", '"q"', "' '", "(", ")"]
STANDARD = "dDfFgGoOrRsStTmMyYjJilIcn"


def render(tokens: list) -> str:
    return "".join(tok if isinstance(tok, str) else tok[0] * tok[1] for tok in tokens)


def flatten_embedded(pattern: str) -> str | None:
    """`A ld<DP> B lt<TP> C` -> `A DP B TP C` (the pattern an embedded custom date/time pattern is equivalent to).

    Scans at top level only (quotes and escapes respected). Returns None when the brackets do not balance or an
    embedded pattern is a standard single-letter pattern (its expansion is culture data, not pattern text).
    """
    out = []
    i, n = 0, len(pattern)
    while i < n:
        ch = pattern[i]
        if ch in "'\"":
            j = i + 1
            while j < n and pattern[j] != ch:
                j += 2 if pattern[j] == "\\" else 1
            out.append(pattern[i : j + 1])
            i = j + 1
        elif ch == "\\":
            out.append(pattern[i : i + 2])
            i += 2
        elif ch == "l" and pattern[i + 1 : i + 3] in ("d<", "t<"):
            j = i + 3
            depth = 1
            while j < n and depth:
                cj = pattern[j]
                if cj in "'\"":
                    k = j + 1
                    while k < n and pattern[k] != cj:
                        k += 2 if pattern[k] == "\\" else 1
                    j = k + 1
                    continue
                if cj == "\\":
                    j += 2
                    continue
                depth += cj == "<"
                depth -= cj == ">"
                j += 1
            if depth:
                return None
            inner = pattern[i + 3 : j - 1]
            if len(inner) <= 1 or (len(inner) == 2 and inner[0] == "%"):
                return None
            out.append(inner)
            i = j
        elif ch in "<>":
            return None
        else:
            out.append(ch)
            i += 1
    return "".join(out)


def st_valid_pattern(t: str) -> st.SearchStrategy[str]:
    """Patterns that are mostly accepted: distinct field letters, legal repeat counts, literal separators between."""
    if t == "datetime":
        # a quarter of the date-time patterns embed a date and/or a time pattern (ld<...>, lt<...>)
        def emb(x):
            dp, tp, sep, ed, et, order, lead = x
            a = f"ld<{dp}>" if ed else dp
            b = f"lt<{tp}>" if et else tp
            parts = [a, b] if order else [b, a]
            return lead + parts[0] + sep + parts[1]

        embedded = st.tuples(
            _st_valid_plain("date"),
            _st_valid_plain("time"),
            st.sampled_from(SEPARATORS),
            st.booleans(),
            st.booleans(),
            st.booleans(),
            st.sampled_from(["", "", "'x'"]),
        ).map(emb)
        return st.one_of(_st_valid_plain(t), _st_valid_plain(t), embedded, embedded)
    return _st_valid_plain(t)


def _st_valid_plain(t: str) -> st.SearchStrategy[str]:
    fields = FIELDS[t]
    letters = sorted(fields)

    def build(x):
        chosen, counts, seps, lead = x
        toks: list = []
        if lead:
            toks.append(lead)
        for i, letter in enumerate(chosen):
            reps = fields[letter]
            toks.append((letter, reps[counts[i % len(counts)] % len(reps)]))
            toks.append(seps[i % len(seps)])
        if toks and isinstance(toks[-1], str) and len(chosen) > 0:
            toks.pop()
        return render(toks)

    return st.tuples(
        st.lists(st.sampled_from(letters), min_size=1, max_size=min(7, len(letters)), unique=True),
        st.lists(st.integers(0, 8), min_size=1, max_size=7),
        st.lists(st.sampled_from(SEPARATORS), min_size=1, max_size=7),
        st.sampled_from(["", "", "", "'x'", "\\#"]),
    ).map(build)


def st_any_pattern(t: str) -> st.SearchStrategy[str]:
    """Valid patterns, single standard letters, mutated patterns and unstructured strings."""
    alphabet = "".join(sorted(set("".join(FIELDS[t]) + "yMdHhmsfFtgcuDS+-Z"))) + "'\"\\%<>:/.;, lzxTe"
    raw = st.text(alphabet=st.sampled_from(alphabet), max_size=14)
    uni = st.text(max_size=8)

    def mutate(x):
        p, op, pos, ch = x
        if not p:
            return ch
        pos %= len(p) + 1
        if op == 0:
            return p[:pos] + p[pos + 1 :]
        if op == 1:
            return p[:pos] + ch + p[pos:]
        if op == 2:
            return p[:pos] + p[max(0, pos - 1) : pos] * 3 + p[pos:]
        if op == 3:
            return p + "'"
        if op == 4:
            return p + "\\"
        if op == 5:
            return "%" + p
        if op == 6:
            return p[:pos] + "<" + p[pos:] + ">"
        return p[:pos] + ch * 12 + p[pos:]

    valid = st_valid_pattern(t)
    mutated = st.tuples(valid, st.integers(0, 7), st.integers(0, 30), st.sampled_from(list(alphabet))).map(mutate)
    twice = st.tuples(mutated, st.integers(0, 7), st.integers(0, 30), st.sampled_from(list(alphabet))).map(mutate)
    extras = [valid, valid, st.sampled_from(list(STANDARD)), mutated, twice, raw, uni, st.just(""), st.sampled_from(["%", "%%", "%d", "'", "\\", "ld<>", "ld<uuuu>", "lt<HH>", "l<G>", "uuuu-MM-dd'T'HH:mm:ss", "HHH", "MMMMM", "yyy"])]
    if t == "datetime":
        # an embedded date/time pattern next to a loose field of the same kind (documented as an invalid pattern)
        def over(x):
            dp, tp, fld, before, et = x
            tpart = f"lt<{tp}>" if et else tp
            return (f"{fld} ld<{dp}> {tpart}" if before else f"ld<{dp}> {fld} {tpart}") if fld[0] in "dMuyc" else (f"{fld} lt<{tp}> {dp}" if before else f"lt<{tp}> {fld} {dp}")

        extras.append(st.tuples(_st_valid_plain("date"), _st_valid_plain("time"), st.sampled_from(["dd", "d", "MM", "uuuu", "yyyy", "c", "HH", "mm", "ss", "tt"]), st.booleans(), st.booleans()).map(over))
    return st.one_of(*extras)
