"""Process bootstrap: make `import pyoda_time` work and make runs deterministic.

pyoda_time imports PyICU, which needs libicui18n.so.73; that library is not on the default loader path in
this sandbox. We look for it, set LD_LIBRARY_PATH and re-exec once.  If no ICU can be found we fall back to a
tiny stub `icu` module (harness/icu_stub) which makes the package importable with the invariant culture only.
"""

from __future__ import annotations

import glob
import os
import subprocess
import sys

VERIF_DIR = os.path.dirname(os.path.dirname(os.path.abspath(__file__)))
STUB_DIR = os.path.join(VERIF_DIR, "harness", "icu_stub")
DEPS_DIR = os.path.join(VERIF_DIR, ".deps")


def _icu_candidates() -> list[str]:
    cands: list[str] = []
    if os.environ.get("VERIF_ICU_LIB"):
        cands.append(os.environ["VERIF_ICU_LIB"])
    cands += sorted(glob.glob("/root/miniconda/pkgs/icu-*/lib"))
    cands += ["/root/miniconda/lib", "/usr/lib/x86_64-linux-gnu", "/usr/local/lib", "/usr/lib"]
    cands += sorted(glob.glob("/opt/*/lib"))
    return [c for c in cands if glob.glob(os.path.join(c, "libicui18n.so.73*"))]


def _icu_works(env: dict[str, str]) -> bool:
    try:
        r = subprocess.run(
            [sys.executable, "-c", "import icu; icu.Locale.getDefault()"],
            env=env,
            capture_output=True,
            timeout=60,
        )
        return r.returncode == 0
    except Exception:
        return False


def ensure_env() -> None:
    """Re-exec the current process once with ICU loadable and PYTHONHASHSEED pinned."""
    if os.environ.get("VERIF_BOOTSTRAPPED") == "1":
        _fix_path()
        return
    env = dict(os.environ)
    env["PYTHONHASHSEED"] = "0"
    env["VERIF_BOOTSTRAPPED"] = "1"
    env.setdefault("PYTHONDONTWRITEBYTECODE", "1")
    mode = None
    if env.get("VERIF_ICU_MODE") != "stub":
        if _icu_works(env):
            mode = "native"
        else:
            for cand in _icu_candidates():
                e2 = dict(env)
                e2["LD_LIBRARY_PATH"] = cand + (":" + env["LD_LIBRARY_PATH"] if env.get("LD_LIBRARY_PATH") else "")
                if _icu_works(e2):
                    env = e2
                    mode = "lib:" + cand
                    break
    if mode is None:
        mode = "stub"
    env["VERIF_ICU_MODE_RESOLVED"] = mode
    os.execve(sys.executable, [sys.executable] + sys.argv, env)


def _fix_path() -> None:
    # order of precedence: mutated repo copy (VERIF_REPO) > icu stub (only in stub mode) > /verif > .deps
    if VERIF_DIR not in sys.path:
        sys.path.insert(0, VERIF_DIR)
    if os.path.isdir(DEPS_DIR) and DEPS_DIR not in sys.path:
        sys.path.append(DEPS_DIR)
    if os.environ.get("VERIF_ICU_MODE_RESOLVED") == "stub" and STUB_DIR not in sys.path:
        sys.path.insert(0, STUB_DIR)
    repo = os.environ.get("VERIF_REPO")
    if repo:
        sys.path.insert(0, repo)


def icu_mode() -> str:
    return os.environ.get("VERIF_ICU_MODE_RESOLVED", "unknown")


def repo_dir() -> str:
    return os.environ.get("VERIF_REPO") or "/repo"


def pin_culture() -> None:
    """Pin the current culture to the invariant culture so repr()/format never depend on the sandbox locale."""
    from pyoda_time._compatibility._culture_info import CultureInfo

    CultureInfo.default_thread_current_culture = CultureInfo.invariant_culture
    CultureInfo.current_culture = CultureInfo.invariant_culture
