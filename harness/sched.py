"""Cooperative scheduler: concurrent executions as a deterministic function of (operations, schedule).

Worker threads run real pyoda_time code, but a sys.settrace hook parks each thread on every `line` event inside the
chosen source files; a controller releases exactly one thread at a time, picking the next one from a *generated*
schedule (a list of ints, interpreted modulo the number of runnable threads). Locks created by the code under test
are replaced by CoopLock, which never blocks the OS thread: a failed acquire parks the thread as "blocked on lock"
(so other threads can run), and re-acquiring a non-re-entrant lock by its owner is reported at once as a
self-deadlock. If every unfinished thread is blocked on a lock the run is reported as a deadlock.
No wall-clock timeout is an oracle; a watchdog only turns a harness bug into an error.
"""

from __future__ import annotations

import sys
import threading
from typing import Any, Callable


class SelfDeadlock(Exception):
    pass


class Deadlock(Exception):
    pass


class SchedulerError(Exception):
    pass


class _Abort(BaseException):
    """Unwinds a worker thread after the controller has given up on the run (deadlock / error)."""


_current_run: "Run | None" = None


class CoopLock:
    """Drop-in for threading.Lock() inside a Run (non re-entrant), or a plain lock outside of one."""

    def __init__(self) -> None:
        self._real = threading.Lock()
        self.owner: int | None = None

    def acquire(self, blocking: bool = True, timeout: float = -1) -> bool:
        run = _current_run
        me = threading.get_ident()
        if run is None or me not in run.by_ident:
            if self.owner == me:
                raise SelfDeadlock("non-re-entrant lock re-acquired by its owner")
            ok = self._real.acquire(blocking, timeout)
            if ok:
                self.owner = me
            return ok
        while True:
            if self.owner is None:
                self.owner = me
                run.by_ident[me].acquisitions += 1
                return True
            if self.owner == me:
                raise SelfDeadlock("non-re-entrant lock re-acquired by its owner")
            if not blocking:
                return False
            run.park(me, blocked_on=self)

    def release(self) -> None:
        run = _current_run
        me = threading.get_ident()
        if run is None or me not in run.by_ident:
            self.owner = None
            self._real.release()
            return
        self.owner = None

    def locked(self) -> bool:
        return self.owner is not None

    def __enter__(self) -> bool:
        return self.acquire()

    def __exit__(self, *exc: Any) -> None:
        self.release()


class ThreadingShim:
    """Stands in for the `threading` module inside a module under test: Lock() gives CoopLock."""

    def __init__(self) -> None:
        self._real = threading

    def Lock(self) -> CoopLock:  # noqa: N802
        return CoopLock()

    def RLock(self):  # noqa: N802
        return self._real.RLock()

    def __getattr__(self, name: str) -> Any:
        return getattr(self._real, name)


class _Worker:
    def __init__(self, index: int, fn: Callable[[], Any]):
        self.index = index
        self.fn = fn
        self.go = threading.Event()
        self.done = False
        self.blocked_on: CoopLock | None = None
        self.result: Any = None
        self.error: BaseException | None = None
        self.thread: threading.Thread | None = None
        self.acquisitions = 0
        self.steps = 0


class Run:
    def __init__(self, fns: list[Callable[[], Any]], schedule: list[int], trace_files: tuple[str, ...], max_steps: int = 20000):
        self.workers = [_Worker(i, fn) for i, fn in enumerate(fns)]
        self.schedule = list(schedule) or [0]
        self.trace_files = trace_files
        self.max_steps = max_steps
        self.by_ident: dict[int, _Worker] = {}
        self.parked = threading.Event()
        self.preemptions = 0
        self.switches = 0
        self.trace: list[int] = []
        self.aborted = False

    # -- called from worker threads ---------------------------------------------------------------------------------
    def park(self, ident: int, blocked_on: CoopLock | None = None) -> None:
        if self.aborted:
            raise _Abort()
        w = self.by_ident[ident]
        w.blocked_on = blocked_on
        w.go.clear()
        self.parked.set()
        if not w.go.wait(30):
            raise SchedulerError("worker was never resumed (harness bug)")
        w.blocked_on = None
        if self.aborted:
            raise _Abort()

    def _tracer(self, frame, event, arg):
        if event == "call":
            fn = frame.f_code.co_filename
            if fn.endswith(self.trace_files):
                return self._line_tracer
            return None
        return None

    def _line_tracer(self, frame, event, arg):
        if event == "line":
            self.park(threading.get_ident())
        return self._line_tracer

    def _body(self, w: _Worker) -> None:
        self.by_ident[threading.get_ident()] = w
        w.go.wait(30)
        sys.settrace(self._tracer)
        try:
            w.result = w.fn()
        except BaseException as e:  # noqa: BLE001
            w.error = e
        finally:
            sys.settrace(None)
            w.done = True
            self.parked.set()

    # -- controller ---------------------------------------------------------------------------------------------------
    def execute(self) -> None:
        global _current_run
        if _current_run is not None:
            raise SchedulerError("nested runs")
        _current_run = self
        try:
            for w in self.workers:
                w.thread = threading.Thread(target=self._body, args=(w,), daemon=True)
                w.thread.start()
            # wait until every worker registered itself
            import time

            t0 = time.time()
            while len(self.by_ident) < len(self.workers):
                if time.time() - t0 > 30:
                    raise SchedulerError("workers did not start")
                time.sleep(0.0005)
            si = 0
            last = None
            steps = 0
            while True:
                alive = [w for w in self.workers if not w.done]
                if not alive:
                    break
                runnable = [w for w in alive if w.blocked_on is None or w.blocked_on.owner is None]
                if not runnable:
                    raise Deadlock(f"all {len(alive)} unfinished threads are blocked on locks")
                pick = runnable[self.schedule[si % len(self.schedule)] % len(runnable)]
                si += 1
                if last is not None and last is not pick and not last.done:
                    self.preemptions += 1
                if last is not pick:
                    self.switches += 1
                last = pick
                self.trace.append(pick.index)
                steps += 1
                if steps > self.max_steps:
                    raise SchedulerError("step budget exceeded")
                self.parked.clear()
                pick.steps += 1
                pick.go.set()
                if not self.parked.wait(30):
                    raise SchedulerError("worker did not reach a yield point (harness bug or code stuck outside traced files)")
        finally:
            _current_run = None
            self.aborted = True
            # unwind any still-parked worker
            for w in self.workers:
                if not w.done:
                    w.go.set()
            for w in self.workers:
                if w.thread is not None:
                    w.thread.join(5)


def run_schedule(fns: list[Callable[[], Any]], schedule: list[int], trace_files: tuple[str, ...]) -> Run:
    r = Run(fns, schedule, trace_files)
    r.execute()
    return r
