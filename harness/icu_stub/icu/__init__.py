"""Harness-side fallback used only when no ICU shared library can be loaded (evidence: icu_mode=stub).

It provides just the names pyoda_time touches at import time; with it only the invariant culture exists.
"""


class Locale:
    def __init__(self, name=None):
        self._name = name or ""

    @staticmethod
    def getDefault():
        return None

    @staticmethod
    def getAvailableLocales():
        return {}

    def getName(self):
        return self._name


class _Unavailable:
    def __init__(self, *a, **k):
        raise RuntimeError("ICU is not available (verification harness stub)")


DateFormatSymbols = DateTimePatternGenerator = DateFormat = SimpleDateFormat = _Unavailable
DecimalFormatSymbols = Calendar = _Unavailable
