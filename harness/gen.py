"""Shared Hypothesis strategies and helpers.

All randomness lives inside Hypothesis strategies; runs are seeded from VERIF_SEED per shard.
"""

from __future__ import annotations

from typing import Any, Callable, Iterable, Sequence

from hypothesis import HealthCheck, Phase, given, seed, settings
from hypothesis import strategies as st

NS_PER_DAY = 86_400 * 10**9


def ints_biased(lo: int, hi: int, units: Sequence[int] = (1,), beyond: float = 0.0) -> st.SearchStrategy[int]:
    """Integers in [lo, hi] (optionally also `beyond`*span outside it), biased towards edges and towards
    k*u + d for every unit u, d in {-1, 0, 1} and k of every magnitude."""
    span = hi - lo
    ext = int(span * beyond)
    xlo, xhi = lo - ext, hi + ext
    edges = sorted({lo, lo + 1, lo + 2, hi, hi - 1, hi - 2, 0, 1, -1} | ({lo - 1, hi + 1, lo - 2, hi + 2} if beyond else set()))
    edges = [e for e in edges if xlo <= e <= xhi]
    parts: list[st.SearchStrategy[int]] = [st.integers(xlo, xhi), st.sampled_from(edges)]

    def mult(u: int) -> st.SearchStrategy[int]:
        kmax = max(abs(xlo), abs(xhi)) // u
        if kmax < 1:
            return st.just(0)
        digits = len(str(kmax))
        # magnitude log-uniform: choose number of digits, then value
        def build(t: tuple[int, int, int, int]) -> int:
            nd, raw, sign, d = t
            k = raw % (10**nd) if nd < digits else raw % (kmax + 1)
            k = min(k, kmax)
            v = sign * k * u + d
            return max(xlo, min(xhi, v))

        return st.tuples(
            st.integers(1, digits), st.integers(0, 10 ** (digits + 1)), st.sampled_from([1, -1]), st.sampled_from([-1, 0, 1])
        ).map(build)

    for u in units:
        if u > 1:
            parts.append(mult(u))
    if beyond:
        parts.append(st.integers(xlo, lo))
        parts.append(st.integers(hi, xhi))
    # small magnitudes
    if max(xlo, -1000) <= min(xhi, 1000):
        parts.append(st.integers(max(xlo, -1000), min(xhi, 1000)))
    return st.one_of(parts)


def run_hypothesis(
    test_body: Callable[..., None],
    strategies: dict[str, st.SearchStrategy[Any]] | Sequence[st.SearchStrategy[Any]],
    max_examples: int,
    seed_value: int,
) -> None:
    """Run a Hypothesis search (generate phase only: failures are collected, not raised, so nothing to shrink)."""
    cfg = settings(
        max_examples=max_examples,
        database=None,
        deadline=None,
        derandomize=False,
        report_multiple_bugs=False,
        phases=[Phase.generate],
        suppress_health_check=[HealthCheck.too_slow, HealthCheck.data_too_large, HealthCheck.large_base_example],
    )
    if isinstance(strategies, dict):
        wrapped = given(**strategies)(test_body)
    else:
        wrapped = given(*strategies)(test_body)
    wrapped = seed(seed_value)(cfg(wrapped))
    wrapped()


def chunks(seq: Sequence[Any], n: int) -> list[Sequence[Any]]:
    n = max(1, n)
    k, m = divmod(len(seq), n)
    out = []
    start = 0
    for i in range(n):
        end = start + k + (1 if i < m else 0)
        if end > start:
            out.append(seq[start:end])
        start = end
    return out
