"""Helpers that touch pyoda_time: calendar inventory, constructive date generators (by day number), zones."""

from __future__ import annotations

from functools import lru_cache
from typing import Any

from hypothesis import strategies as st

DAY = 86_400 * 10**9


@lru_cache(maxsize=None)
def cal_ids() -> tuple[str, ...]:
    from pyoda_time import CalendarSystem

    return tuple(CalendarSystem.ids)


@lru_cache(maxsize=None)
def cal(cid: str):
    from pyoda_time import CalendarSystem

    return CalendarSystem.for_id(cid)


def date_from_day(cid: str, n: int):
    """The LocalDate for day number n in calendar cid (day -> date direction validated exhaustively by C01)."""
    from pyoda_time import LocalDate

    return LocalDate._ctor(days_since_epoch=n, calendar=cal(cid))


def day_of(date) -> int:
    return date._days_since_epoch


def fields(d) -> tuple[int, int, int]:
    return (d.year, d.month, d.day)


def fmt_date(d) -> str:
    """Harness-side rendering (never repr(): month-name formatting of months 13+ raises on this code base)."""
    return f"{d.calendar.id}:{d.year}-{d.month}-{d.day}"


def resolve_cal_day(cid: str, u: int, mspec: int, dspec: int, delta: int) -> int:
    """Constructively pick a valid day number of calendar cid from raw integers (no filtering)."""
    from pyoda_time import LocalDate

    c = cal(cid)
    ny = c.max_year - c.min_year + 1
    mode = u % 8
    u >>= 3
    if mode == 0:
        y = c.min_year + u % min(3, ny)
    elif mode == 1:
        y = c.max_year - u % min(3, ny)
    elif mode == 2:
        # years whose year-start cache slots alias (1024 apart), around the modern era
        y = min(c.max_year, max(c.min_year, (c.min_year + ny // 2) + (u % 5 - 2) * 1024 + (u >> 4) % 3))
    else:
        y = c.min_year + u % ny
    miy = c.get_months_in_year(y)
    if mspec % 7 == 0:
        m = 1
    elif mspec % 7 == 1:
        m = miy
    elif mspec % 7 == 2:
        m = max(1, miy - 1)
    else:
        m = 1 + (mspec // 7) % miy
    dim = c.get_days_in_month(y, m)
    k = dspec % 6
    d = {0: 1, 1: min(2, dim), 2: max(1, dim - 1), 3: dim}.get(k, 1 + (dspec // 6) % dim)
    n = LocalDate(y, m, d, c)._days_since_epoch + delta
    return max(c._min_days, min(c._max_days, n))


def st_cal_day(ids: tuple[str, ...] | None = None) -> st.SearchStrategy[tuple[str, int]]:
    ids = ids or cal_ids()
    return st.tuples(
        st.sampled_from(ids), st.integers(0, 2**40), st.integers(0, 200), st.integers(0, 400), st.integers(-3, 3)
    ).map(lambda t: (t[0], resolve_cal_day(*t)))


def st_day_in(cid: str) -> st.SearchStrategy[int]:
    return st.tuples(st.integers(0, 2**40), st.integers(0, 200), st.integers(0, 400), st.integers(-3, 3)).map(
        lambda t: resolve_cal_day(cid, *t)
    )


def st_nod() -> st.SearchStrategy[int]:
    """Nanosecond of day, biased to unit boundaries."""
    from harness.gen import ints_biased

    return ints_biased(0, DAY - 1, (100, 10**3, 10**6, 10**9, 60 * 10**9, 3600 * 10**9, 12 * 3600 * 10**9))


def ldt_from(cid: str, n: int, nod: int):
    from pyoda_time import LocalTime

    return date_from_day(cid, n).at(LocalTime.from_nanoseconds_since_midnight(nod))


def ldt_total(ldt) -> int:
    nod = ldt.nanosecond_of_day
    if not 0 <= nod < DAY:
        from harness.core import Mismatch

        raise Mismatch("local-time-not-normalised", f"nanosecond_of_day={nod}")
    return ldt.date._days_since_epoch * DAY + nod
