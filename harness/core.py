"""Core of the verification harness: case evaluation, failure collection by root-cause signature, sharded task
execution, JSON-case shrinking, known-findings handling, evidence and replay files.

A *check module* (checks/cXX.py) provides:

    PROPERTY: str                        # "C03"
    LEVEL: str                           # evidence level, e.g. "exploration"
    RULE: str                            # how cases are generated and what makes one non-trivial
    def tasks(tier, seed) -> list[Task]  # shards; every shard is a pure function of (tree, seed, tier)
    def eval_case(kind, case) -> CaseInfo | None
        # runs ONE concrete JSON-able case through the oracle. Raises Mismatch(sig_suffix, msg) when the oracle
        # disagrees; any other exception coming out of pyoda_time is a failure whose signature is derived from
        # the traceback; raises InvalidCase if the case is outside the property's domain (never a failure).
    task functions  `def task_<name>(ctx: Ctx, **args)`  that generate cases and call ctx.case(kind, case)
        (or ctx.bulk(...) / ctx.fail(...) for tight enumeration loops).

Everything a task does goes through Ctx so that counting, classification, signatures and replay are uniform.
"""

from __future__ import annotations

import hashlib
import json
import multiprocessing as mp
import os
import sys
import time
import traceback
from collections import Counter
from dataclasses import dataclass, field
from typing import Any, Callable

VERIF_DIR = os.path.dirname(os.path.dirname(os.path.abspath(__file__)))


class Mismatch(AssertionError):
    """The oracle disagrees with the implementation. `sig` names the check/field (root-cause bucket)."""

    def __init__(self, sig: str, msg: str = ""):
        super().__init__(f"{sig}: {msg}")
        self.sig = sig
        self.msg = msg


class InvalidCase(Exception):
    """The concrete case is outside the domain the property quantifies over (used by the shrinker)."""


class HarnessError(Exception):
    pass


class CaseTimeout(BaseException):
    """Raised by the SIGALRM watchdog inside a case that has been running for CASE_TIMEOUT_S (>= 10^4 x typical).
    It is never a verdict by itself: the case is re-run under a deterministic call-count budget to decide."""


class CallBudgetExceeded(BaseException):
    pass


CASE_TIMEOUT_S = float(os.environ.get("VERIF_CASE_TIMEOUT", "25"))
CALL_BUDGET = int(os.environ.get("VERIF_CALL_BUDGET", "6000000"))


def _alarm(signum, frame):  # noqa: ARG001
    raise CaseTimeout()


class time_limit:
    """Wall-clock watchdog for the main thread of a worker (no-op elsewhere)."""

    _depth = 0  # re-entrant: only the outermost block owns the timer

    def __init__(self, seconds: float = CASE_TIMEOUT_S):
        self.seconds = seconds
        self.active = False

    def __enter__(self):
        import signal
        import threading

        if threading.current_thread() is threading.main_thread():
            if time_limit._depth == 0:
                self.old = signal.signal(signal.SIGALRM, _alarm)
                signal.setitimer(signal.ITIMER_REAL, self.seconds, 0.5)  # repeats: a swallowed alarm fires again
                self.active = True
            time_limit._depth += 1
            self.counted = True
        else:
            self.counted = False
        return self

    def __exit__(self, *exc):
        import signal

        if self.counted:
            time_limit._depth -= 1
        if self.active:
            signal.setitimer(signal.ITIMER_REAL, 0)
            signal.signal(signal.SIGALRM, self.old)
        return False


def run_with_call_budget(fn: Callable[[], Any], budget: int = CALL_BUDGET) -> Any:
    """Deterministic non-termination detector: counts Python function calls made by fn()."""
    count = 0

    def prof(frame, event, arg):  # noqa: ARG001
        nonlocal count
        if event == "call":
            count += 1
            if count > budget:
                sys.setprofile(None)
                raise CallBudgetExceeded()

    sys.setprofile(prof)
    try:
        return fn()
    finally:
        sys.setprofile(None)


@dataclass
class CaseInfo:
    nontrivial: bool = False
    label: str | None = None


@dataclass
class Task:
    fn: str
    args: dict[str, Any] = field(default_factory=dict)
    name: str = ""


@dataclass
class Failure:
    sig: str
    kind: str
    case: Any
    msg: str

    def size(self) -> int:
        return len(json.dumps(self.case, sort_keys=True, default=str))


def _frames_signature(exc: BaseException) -> str | None:
    """`<relative file>:<function>` of the innermost pyoda_time frame of the traceback (preconditions helper
    frames skipped), or None when no pyoda_time frame is on the stack (i.e. the harness itself is at fault)."""
    tb = traceback.extract_tb(exc.__traceback__)
    best = None
    for fr in tb:
        fn = fr.filename.replace("\\", "/")
        idx = fn.rfind("/pyoda_time/")
        if idx < 0:
            continue
        rel = fn[idx + 1 :]
        if rel.endswith("utility/_preconditions.py"):
            continue
        best = f"{rel}:{fr.name}"
    return best


def exception_signature(prop: str, kind: str, exc: BaseException) -> str | None:
    where = _frames_signature(exc)
    if where is None:
        return None
    return f"{prop}/{kind}/exc/{type(exc).__name__}@{where}"


def case_key(kind: str, case: Any) -> int:
    h = hashlib.blake2b(digest_size=8)
    h.update(kind.encode())
    h.update(json.dumps(case, sort_keys=True, default=str).encode())
    return int.from_bytes(h.digest(), "big")


MAX_KEYS_PER_TASK = 400_000
MAX_FAIL_PER_SIG = 5


class Ctx:
    """Per-task collector."""

    def __init__(self, module: Any, task: Task, tier: str, seed: int):
        self.module = module
        self.prop = module.PROPERTY
        self.task = task
        self.tier = tier
        self.seed = seed
        self.evaluations = 0
        self.keys: set[int] = set()
        self.nt_bulk = 0  # non-trivial cases that are distinct by construction (enumerations)
        self.labels: Counter[str] = Counter()
        self.failures: dict[str, list[Failure]] = {}
        self.fail_counts: Counter[str] = Counter()
        self.samples: list[Any] = []
        self.nt_samples: list[Any] = []
        self.excluded = 0
        self.notes: dict[str, Any] = {}
        self.harness_errors: list[str] = []
        self.nonterminating = 0

    # -- single JSON-able cases -----------------------------------------------------------------------------------
    def case(self, kind: str, case: Any) -> bool:
        """Evaluate one case. Returns True when the oracle was satisfied."""
        if self.should_abort():
            self.labels["skipped-after-nontermination"] += 1
            return False
        self.evaluations += 1
        if len(self.samples) < 2:
            self.samples.append({"kind": kind, "case": case})
        # a check module may declare CASE_SCALE = {kind: factor} for kinds whose single case is itself a long sweep
        # (e.g. one case = every interval of a zone through year 9999): watchdog and call budget scale with it
        scale = getattr(self.module, "CASE_SCALE", {}).get(kind, 1)
        try:
            with time_limit(CASE_TIMEOUT_S * scale):
                info = self.module.eval_case(kind, case)
        except CaseTimeout:
            return self.confirm_slow_case(kind, case, scale)
        except InvalidCase:
            self.labels["invalid-case"] += 1
            return True
        except Mismatch as m:
            self._record(f"{self.prop}/{kind}/{m.sig}", kind, case, m.msg)
            return False
        except (KeyboardInterrupt, SystemExit, MemoryError):
            raise
        except BaseException as e:  # noqa: BLE001 - classification is the point
            sig = exception_signature(self.prop, kind, e)
            if sig is None:
                self.harness_errors.append(
                    f"{kind} {json.dumps(case, default=str)[:400]}\n" + "".join(traceback.format_exception(e))[-3000:]
                )
                return False
            self._record(sig, kind, case, f"{type(e).__name__}: {e}"[:500])
            return False
        if info is not None:
            if info.label:
                self.labels[info.label] += 1
            if info.nontrivial:
                if len(self.keys) < MAX_KEYS_PER_TASK:
                    self.keys.add(case_key(kind, case))
                if len(self.nt_samples) < 2:
                    self.nt_samples.append({"kind": kind, "case": case})
        return True

    def should_abort(self) -> bool:
        """True once two non-terminating operations have been confirmed in this task: the violation is established
        and every further lookup would cost a watchdog period, so the task stops exploring."""
        return self.nonterminating >= 2

    def confirm_slow_case(self, kind: str, case: Any, scale: int = 1) -> bool:
        """A case hit the wall-clock watchdog: decide deterministically by re-running it under a call budget."""
        self.labels["watchdog-fired"] += 1
        try:
            run_with_call_budget(lambda: self.module.eval_case(kind, case), CALL_BUDGET * scale)
        except CallBudgetExceeded:
            self.nonterminating += 1
            self._record(f"{self.prop}/{kind}/nonterminating", kind, case, f"more than {CALL_BUDGET * scale} Python calls (typical: {'thousands' if scale == 1 else 'a few million for this sweep'}) - the operation does not terminate")
            return False
        except InvalidCase:
            return True
        except Mismatch as m:
            self._record(f"{self.prop}/{kind}/{m.sig}", kind, case, m.msg)
            return False
        except (KeyboardInterrupt, SystemExit, MemoryError):
            raise
        except BaseException as e:  # noqa: BLE001
            sig = exception_signature(self.prop, kind, e)
            if sig is None:
                self.harness_errors.append(f"{kind} slow-case replay: {type(e).__name__}: {e}")
            else:
                self._record(sig, kind, case, f"{type(e).__name__}: {e}"[:500])
            return False
        self.labels["slow-case-completed"] += 1
        return True

    # -- tight loops ------------------------------------------------------------------------------------------------
    def bulk(self, evaluations: int, nontrivial_distinct: int = 0, label: str | None = None) -> None:
        self.evaluations += evaluations
        self.nt_bulk += nontrivial_distinct
        if label:
            self.labels[label] += evaluations

    def label(self, label: str, n: int = 1) -> None:
        self.labels[label] += n

    def sample(self, kind: str, case: Any, nontrivial: bool = False) -> None:
        tgt = self.nt_samples if nontrivial else self.samples
        if len(tgt) < 2:
            tgt.append({"kind": kind, "case": case})

    def fail(self, kind: str, case: Any, sig: str, msg: str) -> None:
        self._record(f"{self.prop}/{kind}/{sig}", kind, case, msg)

    def fail_exc(self, kind: str, case: Any, exc: BaseException) -> None:
        sig = exception_signature(self.prop, kind, exc)
        if sig is None:
            self.harness_errors.append(
                f"{kind} {json.dumps(case, default=str)[:400]}\n" + "".join(traceback.format_exception(exc))[-3000:]
            )
        else:
            self._record(sig, kind, case, f"{type(exc).__name__}: {exc}"[:500])

    def _record(self, sig: str, kind: str, case: Any, msg: str) -> None:
        self.fail_counts[sig] += 1
        lst = self.failures.setdefault(sig, [])
        f = Failure(sig, kind, case, msg)
        if len(lst) < MAX_FAIL_PER_SIG:
            lst.append(f)
        else:
            # keep the smallest ones
            worst = max(range(len(lst)), key=lambda i: lst[i].size())
            if f.size() < lst[worst].size():
                lst[worst] = f

    def result(self) -> dict[str, Any]:
        return {
            "task": self.task.name or self.task.fn,
            "evaluations": self.evaluations,
            "keys": self.keys,
            "nt_bulk": self.nt_bulk,
            "labels": dict(self.labels),
            "failures": {s: [(f.kind, f.case, f.msg) for f in fl] for s, fl in self.failures.items()},
            "fail_counts": dict(self.fail_counts),
            "samples": self.samples,
            "nt_samples": self.nt_samples,
            "notes": self.notes,
            "harness_errors": self.harness_errors[:5],
        }


# ---------------------------------------------------------------------------------------------------------------
# task execution
# ---------------------------------------------------------------------------------------------------------------

_WORKER_STATE: dict[str, Any] = {}


def _worker_init(modname: str, tier: str, seed: int) -> None:
    import importlib

    from harness import bootstrap

    bootstrap.pin_culture()
    _WORKER_STATE["module"] = importlib.import_module(modname)
    _WORKER_STATE["tier"] = tier
    _WORKER_STATE["seed"] = seed


def _worker_run(task: Task) -> dict[str, Any]:
    module = _WORKER_STATE["module"]
    ctx = Ctx(module, task, _WORKER_STATE["tier"], _WORKER_STATE["seed"])
    t0 = time.time()
    try:
        getattr(module, task.fn)(ctx, **task.args)
    except (KeyboardInterrupt, SystemExit):
        raise
    except BaseException as e:  # noqa: BLE001
        ctx.harness_errors.append(f"task {task.name or task.fn} crashed:\n" + "".join(traceback.format_exception(e))[-4000:])
    r = ctx.result()
    r["wall_s"] = time.time() - t0
    r["task"] = task.name or task.fn
    return r


def run_tasks(modname: str, tasks: list[Task], tier: str, seed: int, nproc: int | None = None) -> list[dict[str, Any]]:
    nproc = nproc or int(os.environ.get("VERIF_NPROC", "0")) or min(16, os.cpu_count() or 1)
    nproc = max(1, min(nproc, len(tasks)))
    if nproc == 1 or os.environ.get("VERIF_INLINE") == "1":
        _worker_init(modname, tier, seed)
        return [_worker_run(t) for t in tasks]
    ctx = mp.get_context("fork")
    with ctx.Pool(nproc, initializer=_worker_init, initargs=(modname, tier, seed), maxtasksperchild=None) as pool:
        res = list(pool.imap_unordered(_worker_run, tasks, chunksize=1))
        pool.close()
        pool.join()  # let the workers exit normally (a coverage run saves its data at exit)
        return res


def sub_seed(seed: int, *parts: Any) -> int:
    h = hashlib.blake2b(digest_size=8)
    h.update(repr((seed,) + parts).encode())
    return int.from_bytes(h.digest(), "big") % (2**63)


# ---------------------------------------------------------------------------------------------------------------
# shrinking of JSON cases (ints toward zero, strings/lists by deletion) with "same signature" as the test
# ---------------------------------------------------------------------------------------------------------------


def signature_and_message(module: Any, kind: str, case: Any) -> tuple[str | None, str]:
    try:
        try:
            with time_limit():
                module.eval_case(kind, case)
        except CaseTimeout:
            run_with_call_budget(lambda: module.eval_case(kind, case))
    except CallBudgetExceeded:
        return f"{module.PROPERTY}/{kind}/nonterminating", "the operation does not terminate (call budget exceeded)"
    except InvalidCase:
        return None, ""
    except Mismatch as m:
        return f"{module.PROPERTY}/{kind}/{m.sig}", m.msg
    except (KeyboardInterrupt, SystemExit, MemoryError):
        raise
    except BaseException as e:  # noqa: BLE001
        return exception_signature(module.PROPERTY, kind, e), f"{type(e).__name__}: {e}"[:500]
    return None, ""


def _signature_of(module: Any, kind: str, case: Any) -> str | None:
    return signature_and_message(module, kind, case)[0]


def _paths(obj: Any, prefix: tuple = ()) -> list[tuple]:
    out = []
    if isinstance(obj, dict):
        for k in sorted(obj):
            out += _paths(obj[k], prefix + (k,))
    elif isinstance(obj, list):
        out.append(prefix)
        for i, v in enumerate(obj):
            out += _paths(v, prefix + (i,))
    else:
        out.append(prefix)
    return out


def _get(obj: Any, path: tuple) -> Any:
    for p in path:
        obj = obj[p]
    return obj


def _set(obj: Any, path: tuple, val: Any) -> Any:
    obj = json.loads(json.dumps(obj))
    if not path:
        return val
    cur = obj
    for p in path[:-1]:
        cur = cur[p]
    cur[path[-1]] = val
    return obj


def _candidates(v: Any) -> list[Any]:
    if isinstance(v, bool):
        return [False] if v else []
    if isinstance(v, int):
        if v == 0:
            return []
        c = [0, 1 if v > 0 else -1]
        # powers of ten / two nearest, halves, decrement
        a = abs(v)
        s = 1 if v > 0 else -1
        c += [s * (a // 2), s * (a - 1)]
        if a > 10:
            c.append(s * (a // 10))
            p = 10 ** (len(str(a)) - 1)
            c.append(s * p)
            c.append(s * (a // p) * p)
            c.append(s * (a - a % 1000))
        return [x for x in dict.fromkeys(c) if abs(x) < a or (abs(x) == a and x > v)]
    if isinstance(v, float):
        return [0.0, float(int(v))] if v not in (0.0,) and v == v else []
    if isinstance(v, str):
        c = []
        n = len(v)
        if n == 0:
            return []
        c.append("")
        step = n // 2
        while step >= 1:
            for i in range(0, n, step):
                c.append(v[:i] + v[i + step :])
            step //= 2
        for i, ch in enumerate(v):
            for rep in ("0", "a", " "):
                if ch != rep and (ch > rep or not ch.isascii()):
                    c.append(v[:i] + rep + v[i + 1 :])
                    break
        return list(dict.fromkeys(c))[:200]
    if isinstance(v, list):
        c = []
        n = len(v)
        if n == 0:
            return []
        step = max(1, n // 2)
        while step >= 1:
            for i in range(0, n, step):
                c.append(v[:i] + v[i + step :])
            step //= 2
        return c[:100]
    return []


def shrink_case(module: Any, kind: str, case: Any, sig: str, budget_s: float) -> Any:
    t_end = time.time() + budget_s
    if not getattr(module, "SHRINKABLE", True):
        return case
    best = case
    best_size = len(json.dumps(best, sort_keys=True, default=str))
    improved = True
    while improved and time.time() < t_end:
        improved = False
        for path in _paths(best):
            if time.time() >= t_end:
                break
            try:
                cur = _get(best, path)
            except (KeyError, IndexError, TypeError):
                continue
            for cand in _candidates(cur):
                if time.time() >= t_end:
                    break
                trial = _set(best, path, cand)
                if _signature_of(module, kind, trial) == sig:
                    size = len(json.dumps(trial, sort_keys=True, default=str))
                    if size < best_size or (size == best_size and trial != best):
                        best, best_size = trial, size
                        improved = True
                        break
    return best


# ---------------------------------------------------------------------------------------------------------------
# known findings / evidence / replay
# ---------------------------------------------------------------------------------------------------------------


def load_known_findings() -> list[dict[str, Any]]:
    p = os.path.join(VERIF_DIR, "known_findings.json")
    if not os.path.exists(p):
        return []
    with open(p) as fh:
        return json.load(fh)["findings"]


def validate_evidence(ev: dict[str, Any]) -> None:
    try:
        import jsonschema  # type: ignore

        schema_path = "/root/.vp/EVIDENCE.schema.json"
        local = os.path.join(VERIF_DIR, "harness", "EVIDENCE.schema.json")
        with open(schema_path if os.path.exists(schema_path) else local) as fh:
            schema = json.load(fh)
        jsonschema.validate(ev, schema)
        return
    except ImportError:
        pass
    for k in ("property_id", "tier", "seed", "level", "coverage", "wall_s"):
        if k not in ev:
            raise HarnessError(f"evidence lacks {k}")
    cov = ev["coverage"]
    for k in ("evaluations", "distinct_nontrivial", "rule", "samples"):
        if k not in cov:
            raise HarnessError(f"evidence coverage lacks {k}")
    if cov["evaluations"] < 1 or cov["distinct_nontrivial"] < 2 or not cov["samples"]:
        raise HarnessError("evidence coverage counts too small")


def jsonable(x: Any) -> Any:
    return json.loads(json.dumps(x, default=str))
