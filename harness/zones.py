"""Zone helpers shared by C04/C05/C06/C13: interval tuples, walks, instants from ints, zone inventory."""

from __future__ import annotations

from functools import lru_cache

DAY = 86_400 * 10**9
SEC = 10**9
BEFORE_MIN = -(10**30)
AFTER_MAX = 10**30
INST_MIN = -4371222 * DAY
INST_MAX = (2932896 + 1) * DAY - 1


def inst(i: int):
    from pyoda_time import Instant

    return Instant._ctor(days=i // DAY, nano_of_day=i % DAY)


def ns(x) -> int:
    """Nanoseconds since the epoch of an Instant; a value whose day/nanosecond split is not normalised is reported
    (its total would still look right, but equality, hashing and ordering of such a value are broken)."""
    d = x._time_since_epoch
    nod = d._nanosecond_of_floor_day
    if not 0 <= nod < DAY:
        from harness.core import Mismatch

        raise Mismatch("instant-not-normalised", f"floor_days={d._floor_days} nanosecond_of_floor_day={nod}")
    return d.to_nanoseconds()


def iv_tuple(iv) -> tuple[int, int, str, int, int]:
    s = ns(iv.start) if iv.has_start else BEFORE_MIN
    e = ns(iv.end) if iv.has_end else AFTER_MAX
    return (s, e, iv.name, iv.wall_offset.seconds, iv.savings.seconds)


@lru_cache(maxsize=None)
def provider():
    from pyoda_time import DateTimeZoneProviders

    return DateTimeZoneProviders.tzdb


@lru_cache(maxsize=None)
def all_ids() -> tuple[str, ...]:
    return tuple(provider().ids)


@lru_cache(maxsize=None)
def canonical_ids() -> tuple[str, ...]:
    from pyoda_time.time_zones._tzdb_date_time_zone_source import TzdbDateTimeZoneSource

    m = TzdbDateTimeZoneSource.default.canonical_id_map
    return tuple(sorted({v for v in m.values()}))


def zone(zid: str):
    from pyoda_time import DateTimeZone, Offset

    if zid.startswith("fixed:"):
        return DateTimeZone.for_offset(Offset.from_seconds(int(zid[6:])))
    return provider()[zid]


def year_start_ns(y: int) -> int:
    from ref.calendars import rd_from_gregorian

    return (rd_from_gregorian(y, 1, 1) - 719163) * DAY


def walk_from(z, start_ns: int, max_steps: int, stop_ns: int | None = None):
    """Yields library ZoneInterval objects walking forward from the interval containing start_ns."""
    cur = z.get_zone_interval(inst(start_ns))
    steps = 0
    while True:
        yield cur
        steps += 1
        if not cur.has_end or steps >= max_steps:
            return
        if stop_ns is not None and ns(cur.end) > stop_ns:
            return
        cur = z.get_zone_interval(cur.end)
