"""Evaluation of the recurring tail of an .nzd zone by plain calendar arithmetic (independent of pyoda_time).

intervals(zone) -> list of (start_ns, end_ns, name, wall_seconds, savings_seconds) covering the whole timeline, with
BEFORE_MIN / AFTER_MAX sentinels at the ends; instants are ints of nanoseconds since the Unix epoch.
"""

from __future__ import annotations

from ref.calendars import gregorian_leap, rd_from_gregorian
from ref.nzd import AFTER_MAX, BEFORE_MIN, Tail, YearRule, Zone

DAY_NS = 86_400 * 10**9
RD_UNIX = 719163
INST_MAX = (rd_from_gregorian(9999, 12, 31) - RD_UNIX + 1) * DAY_NS - 1
INST_MIN = (rd_from_gregorian(-9998, 1, 1) - RD_UNIX) * DAY_NS
MONTH_LEN = [31, 28, 31, 30, 31, 30, 31, 31, 30, 31, 30, 31]


def dim(y: int, m: int) -> int:
    return 29 if (m == 2 and gregorian_leap(y)) else MONTH_LEN[m - 1]


def occurrence_local_ns(rule: YearRule, year: int):
    """Local (rule frame) nanoseconds of the rule's occurrence in `year`, or None if it is beyond the end of time."""
    if not 1 <= rule.month <= 12:
        raise ValueError("month")
    d = rule.day if rule.day > 0 else dim(year, rule.month) + rule.day + 1
    if rule.month == 2 and rule.day == 29 and not gregorian_leap(year):
        raise NotImplementedError("Feb 29 rule in a common year (not present in real data)")
    day = rd_from_gregorian(year, rule.month, d) - RD_UNIX
    if rule.dow:
        cur = (day + 3) % 7 + 1  # ISO weekday
        if cur != rule.dow:
            if rule.advance:
                day += (rule.dow - cur) % 7
            else:
                day -= (cur - rule.dow) % 7
    if rule.add_day:
        day += 1
    return day * DAY_NS + rule.time_ms * 10**6


def rule_offset_ms(rule: YearRule, standard_ms: int, savings_before_ms: int) -> int:
    if rule.mode == 1:
        return standard_ms + savings_before_ms
    if rule.mode == 2:
        return standard_ms
    if rule.mode == 0:
        return 0
    raise ValueError("mode")


def tail_transitions(tail: Tail, from_year: int, to_year: int = 9999):
    """Sorted list of (instant_ns, is_dst) for all rule occurrences in [from_year, to_year] (clamped to the Instant
    range: occurrences beyond the end of time are dropped)."""
    out = []
    for y in range(from_year, to_year + 1):
        # into DST: previous state is standard (savings 0)
        t = occurrence_local_ns(tail.dst_rule, y) - rule_offset_ms(tail.dst_rule, tail.standard_offset_ms, 0) * 10**6
        if t <= INST_MAX:
            out.append((t, True))
        # into standard: previous state is DST
        t = occurrence_local_ns(tail.std_rule, y) - rule_offset_ms(tail.std_rule, tail.standard_offset_ms, tail.savings_ms) * 10**6
        if t <= INST_MAX:
            out.append((t, False))
    out.sort()
    return out


def year_of_ns(ns: int) -> int:
    # proleptic Gregorian year of an instant (UTC)
    from ref.calendars import Gregorian

    return Gregorian().from_days(ns // DAY_NS)[0]


def intervals(z: Zone, tail_years: range | None = None):
    """All intervals of the zone. With tail_years, only the tail transitions of those years are generated (callers
    then compare only inside those years)."""
    if z.kind == "fixed":
        return [(BEFORE_MIN, AFTER_MAX, z.fixed_name, z.fixed_offset_ms // 1000, 0)]
    out = [(p.start, p.end, p.name, p.wall_ms // 1000, p.savings_ms // 1000) for p in z.periods]
    if z.tail is None:
        return out
    t = z.tail
    y0 = year_of_ns(z.tail_start) - 1
    trans = tail_transitions(t, y0)
    # state at tail_start = the last transition at or before it
    idx = 0
    while idx < len(trans) and trans[idx][0] <= z.tail_start:
        idx += 1
    if idx == 0:
        raise ValueError("no transition before the tail start")
    is_dst = trans[idx - 1][1]
    start = z.tail_start
    std_s = t.standard_offset_ms // 1000
    sav_s = t.savings_ms // 1000
    for inst, to_dst in trans[idx:]:
        if to_dst == is_dst:
            raise ValueError(f"two consecutive transitions into the same recurrence at {inst}")
        out.append((start, inst, t.dst_name if is_dst else t.std_name, std_s + (sav_s if is_dst else 0), sav_s if is_dst else 0))
        start = inst
        is_dst = to_dst
    out.append((start, AFTER_MAX, t.dst_name if is_dst else t.std_name, std_s + (sav_s if is_dst else 0), sav_s if is_dst else 0))
    return out
