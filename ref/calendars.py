"""Independent reference implementations of the published arithmetic calendars.

Written from Reingold & Dershowitz, "Calendrical Calculations" (fixed-day "R.D." arithmetic) and from the
documentation strings of the calendars (epochs, leap-year sets). Shares no code and no constants with
pyoda_time. All results are *days since 1970-01-01 (ISO)*: R.D. 719163 is 1970-01-01.

Every calendar is a class with:  start_of_year(y), months_in_year(y), days_in_month(y, m), is_leap(y),
month_order(y) (month numbers in chronological order), to_days(y, m, d), from_days(n) -> (y, m, d).
Years use the "absolute" numbering (Julian/Gregorian year 0 = 1 BCE).
"""

from __future__ import annotations

from bisect import bisect_right
from functools import lru_cache

RD_UNIX = 719163  # R.D. of 1970-01-01 (Gregorian)


def gregorian_leap(y: int) -> bool:
    return y % 4 == 0 and (y % 100 != 0 or y % 400 == 0)


def rd_from_gregorian(y: int, m: int, d: int) -> int:
    return (
        365 * (y - 1)
        + (y - 1) // 4
        - (y - 1) // 100
        + (y - 1) // 400
        + (367 * m - 362) // 12
        + (0 if m <= 2 else (-1 if gregorian_leap(y) else -2))
        + d
    )


def julian_leap(y: int) -> bool:
    return y % 4 == 0


def rd_from_julian(y: int, m: int, d: int) -> int:
    # astronomical year numbering; Julian epoch (1 Jan 1 CE Julian) is R.D. -1
    return -1 - 1 + 365 * (y - 1) + (y - 1) // 4 + (367 * m - 362) // 12 + (0 if m <= 2 else (-1 if julian_leap(y) else -2)) + d


class RefCalendar:
    name = "?"

    def start_of_year(self, y: int) -> int:  # days since unix epoch of the first day of year y
        raise NotImplementedError

    def months_in_year(self, y: int) -> int:
        raise NotImplementedError

    def days_in_month(self, y: int, m: int) -> int:
        raise NotImplementedError

    def is_leap(self, y: int) -> bool:
        raise NotImplementedError

    def month_order(self, y: int) -> list[int]:
        return list(range(1, self.months_in_year(y) + 1))

    def days_in_year(self, y: int) -> int:
        return self.start_of_year(y + 1) - self.start_of_year(y)

    def to_days(self, y: int, m: int, d: int) -> int:
        n = self.start_of_year(y)
        for mm in self.month_order(y):
            if mm == m:
                return n + d - 1
            n += self.days_in_month(y, mm)
        raise ValueError("no such month")

    def approx_year(self, n: int) -> int:
        raise NotImplementedError

    def from_days(self, n: int) -> tuple[int, int, int]:
        y = self.approx_year(n)
        while self.start_of_year(y) > n:
            y -= 1
        while self.start_of_year(y + 1) <= n:
            y += 1
        rem = n - self.start_of_year(y)
        for mm in self.month_order(y):
            dim = self.days_in_month(y, mm)
            if rem < dim:
                return y, mm, rem + 1
            rem -= dim
        raise AssertionError("day beyond end of year")


class Gregorian(RefCalendar):
    name = "Gregorian"
    _ML = [31, 28, 31, 30, 31, 30, 31, 31, 30, 31, 30, 31]

    def start_of_year(self, y):
        return rd_from_gregorian(y, 1, 1) - RD_UNIX

    def months_in_year(self, y):
        return 12

    def is_leap(self, y):
        return gregorian_leap(y)

    def days_in_month(self, y, m):
        return 29 if (m == 2 and gregorian_leap(y)) else self._ML[m - 1]

    def approx_year(self, n):
        return 1970 + int(n // 365.2425)


class Julian(Gregorian):
    name = "Julian"

    def start_of_year(self, y):
        return rd_from_julian(y, 1, 1) - RD_UNIX

    def is_leap(self, y):
        return julian_leap(y)

    def days_in_month(self, y, m):
        return 29 if (m == 2 and julian_leap(y)) else self._ML[m - 1]

    def approx_year(self, n):
        return 1970 + int(n // 365.25)


class Coptic(RefCalendar):
    """Year 1 began on 29 August 284 CE (Julian); every fourth year is leap (year mod 4 == 3); 12 x 30 + 5/6."""

    name = "Coptic"
    EPOCH = rd_from_julian(284, 8, 29) - RD_UNIX

    def start_of_year(self, y):
        return self.EPOCH + 365 * (y - 1) + y // 4

    def months_in_year(self, y):
        return 13

    def is_leap(self, y):
        return y % 4 == 3

    def days_in_month(self, y, m):
        return 30 if m <= 12 else (6 if self.is_leap(y) else 5)

    def approx_year(self, n):
        return 1 + int((n - self.EPOCH) // 365.25)


ISLAMIC_PATTERNS = {
    "Base15": {2, 5, 7, 10, 13, 15, 18, 21, 24, 26, 29},
    "Base16": {2, 5, 7, 10, 13, 16, 18, 21, 24, 26, 29},
    "Indian": {2, 5, 8, 10, 13, 16, 19, 21, 24, 27, 29},
    "HabashAlHasib": {2, 5, 8, 11, 13, 16, 19, 21, 24, 27, 30},
}


class Islamic(RefCalendar):
    """Tabular Islamic calendar: 12 months alternating 30/29 days, last month 30 days in the 11 leap years of each
    30-year cycle; epoch 15 July 622 CE Julian (astronomical) or 16 July (civil)."""

    def __init__(self, pattern: str, epoch: str):
        self.name = f"Hijri {epoch}-{pattern}"
        self.leaps = ISLAMIC_PATTERNS[pattern]
        self.epoch = rd_from_julian(622, 7, 15 if epoch == "Astronomical" else 16) - RD_UNIX

    def is_leap(self, y):
        pos = (y - 1) % 30 + 1
        return pos in self.leaps

    def start_of_year(self, y):
        cycles, rest = divmod(y - 1, 30)
        leaps_before = 11 * cycles + sum(1 for leap in self.leaps if leap <= rest)
        return self.epoch + 354 * (y - 1) + leaps_before

    def months_in_year(self, y):
        return 12

    def days_in_month(self, y, m):
        if m == 12:
            return 30 if self.is_leap(y) else 29
        return 30 if m % 2 == 1 else 29

    def approx_year(self, n):
        return 1 + int((n - self.epoch) // 354.36667)


HEBREW_EPOCH_RD = rd_from_julian(-3760, 10, 7)  # 7 October 3761 BCE (Julian) = R.D. -1373427


@lru_cache(maxsize=None)
def _hebrew_elapsed_days(y: int) -> int:
    months_elapsed = (235 * y - 234) // 19
    parts_elapsed = 12084 + 13753 * months_elapsed
    day = 29 * months_elapsed + parts_elapsed // 25920
    return day + 1 if (3 * (day + 1)) % 7 < 3 else day


def _hebrew_new_year_delay(y: int) -> int:
    ny0, ny1, ny2 = _hebrew_elapsed_days(y - 1), _hebrew_elapsed_days(y), _hebrew_elapsed_days(y + 1)
    if ny2 - ny1 == 356:
        return 2
    if ny1 - ny0 == 382:
        return 1
    return 0


@lru_cache(maxsize=None)
def hebrew_new_year_rd(y: int) -> int:
    return HEBREW_EPOCH_RD + _hebrew_elapsed_days(y) + _hebrew_new_year_delay(y)


class Hebrew(RefCalendar):
    """Hebrew calendar (molad arithmetic with the four postponements), in scriptural (Nisan = 1) or civil
    (Tishri = 1) month numbering. The year always starts with Tishri."""

    def __init__(self, numbering: str):
        self.name = f"Hebrew {numbering}"
        self.civil = numbering == "Civil"

    def is_leap(self, y):
        return (7 * y + 1) % 19 < 7

    def start_of_year(self, y):
        return hebrew_new_year_rd(y) - RD_UNIX

    def months_in_year(self, y):
        return 13 if self.is_leap(y) else 12

    def _scriptural_len(self, y, sm):
        diy = hebrew_new_year_rd(y + 1) - hebrew_new_year_rd(y)
        if sm in (2, 4, 6, 10, 13):
            return 29
        if sm == 12:
            return 30 if self.is_leap(y) else 29
        if sm == 8:
            return 30 if diy % 10 == 5 else 29
        if sm == 9:
            return 29 if diy % 10 == 3 else 30
        return 30

    def _scriptural_order(self, y):
        last = 13 if self.is_leap(y) else 12
        return list(range(7, last + 1)) + list(range(1, 7))

    def civil_to_scriptural(self, y, cm):
        return self._scriptural_order(y)[cm - 1]

    def scriptural_to_civil(self, y, sm):
        return self._scriptural_order(y).index(sm) + 1

    def month_order(self, y):
        if self.civil:
            return list(range(1, self.months_in_year(y) + 1))
        return self._scriptural_order(y)

    def days_in_month(self, y, m):
        sm = self.civil_to_scriptural(y, m) if self.civil else m
        return self._scriptural_len(y, sm)

    def approx_year(self, n):
        return 1 + int((n + RD_UNIX - HEBREW_EPOCH_RD) // 365.2468)


class PersianBase(RefCalendar):
    def months_in_year(self, y):
        return 12

    def days_in_month(self, y, m):
        if m <= 6:
            return 31
        if m <= 11:
            return 30
        return 30 if self.is_leap(y) else 29

    def approx_year(self, n):
        return 1 + int((n - self.start_of_year(1)) // 365.2422)


class PersianSimple(PersianBase):
    """33-year cycle, leap when year mod 33 is one of 1, 5, 9, 13, 17, 22, 26, 30; year 1 began on 21 March 622 CE
    (proleptic Gregorian, the spring-equinox reading of the documented epoch)."""

    name = "Persian Simple"
    EPOCH = rd_from_gregorian(622, 3, 21) - RD_UNIX
    LEAPS = {1, 5, 9, 13, 17, 22, 26, 30}

    def is_leap(self, y):
        return y % 33 in self.LEAPS

    def start_of_year(self, y):
        cycles, rest = divmod(y - 1, 33)  # years 1..y-1 completed
        # leap years among 1..y-1: positions p with p % 33 in LEAPS
        leaps = 8 * cycles + sum(1 for p in range(cycles * 33 + 1, cycles * 33 + rest + 1) if p % 33 in self.LEAPS)
        return self.EPOCH + 365 * (y - 1) + leaps


class PersianArithmetic(PersianBase):
    """Birashk's 2820-year arithmetic (Calendrical Calculations); epoch 19 March 622 CE (Julian)."""

    name = "Persian Arithmetic"
    EPOCH_RD = rd_from_julian(622, 3, 19)

    def is_leap(self, y):
        yy = y - 474 if y > 0 else y - 473
        year = yy % 2820 + 474
        return ((year + 38) * 31) % 128 < 31

    def start_of_year(self, y):
        yy = y - 474 if y > 0 else y - 473
        year = yy % 2820 + 474
        rd = self.EPOCH_RD - 1 + 1029983 * (yy // 2820) + 365 * (year - 1) + (31 * year - 5) // 128 + 1
        return rd - RD_UNIX


def reference_for(cal_id: str) -> RefCalendar | None:
    """Maps a pyoda_time calendar id to its reference implementation (None for table-driven calendars)."""
    if cal_id in ("ISO", "Gregorian"):
        return Gregorian()
    if cal_id == "Julian":
        return Julian()
    if cal_id == "Coptic":
        return Coptic()
    if cal_id.startswith("Hijri "):
        epoch, pattern = cal_id[len("Hijri ") :].split("-")
        return Islamic(pattern, epoch)
    if cal_id == "Hebrew Civil":
        return Hebrew("Civil")
    if cal_id == "Hebrew Scriptural":
        return Hebrew("Scriptural")
    if cal_id == "Persian Simple":
        return PersianSimple()
    if cal_id == "Persian Arithmetic":
        return PersianArithmetic()
    return None


def self_test() -> None:
    """Cross-validation against the standard library and well-known correspondences."""
    import datetime

    g = Gregorian()
    for o in list(range(1, 3000)) + list(range(3652059 - 3000, 3652060)) + list(range(1, 3652059, 997)):
        d = datetime.date.fromordinal(o)
        n = o - 719163
        assert g.to_days(d.year, d.month, d.day) == n, (d, n)
        assert g.from_days(n) == (d.year, d.month, d.day)
    j = Julian()
    # 1 Jan 1970 Gregorian = 19 Dec 1969 Julian; 15 Oct 1582 Gregorian = 5 Oct 1582 Julian
    assert j.from_days(0) == (1969, 12, 19)
    assert j.to_days(1582, 10, 5) == g.to_days(1582, 10, 15)
    assert j.to_days(-4712, 1, 1) == -2440588  # JDN 0 at noon => civil day of 1 Jan 4713 BCE
    h = Hebrew("Scriptural")
    assert h.to_days(5784, 7, 1) == g.to_days(2023, 9, 16)  # Rosh Hashanah 5784
    assert h.to_days(5785, 7, 1) == g.to_days(2024, 10, 3)
    assert h.to_days(5760, 7, 1) == g.to_days(1999, 9, 11)
    assert h.to_days(5784, 1, 15) == g.to_days(2024, 4, 23)  # Pesach 5784
    assert HEBREW_EPOCH_RD == -1373427
    hc = Hebrew("Civil")
    assert hc.to_days(5784, 8, 15) == g.to_days(2024, 4, 23)  # 5784 is leap: Nisan is civil month 8
    i = Islamic("Base16", "Civil")
    assert i.to_days(1, 1, 1) == j.to_days(622, 7, 16)
    assert i.to_days(1445, 1, 1) == g.to_days(2023, 7, 19)  # 1 Muharram 1445 (tabular civil)
    c = Coptic()
    assert c.to_days(1740, 1, 1) == g.to_days(2023, 9, 12)  # Nayrouz 1740 (year before a Gregorian leap year)
    assert c.to_days(1739, 1, 1) == g.to_days(2022, 9, 11)
    pa = PersianArithmetic()
    assert pa.to_days(1403, 1, 1) == g.to_days(2024, 3, 20)  # Nowruz 1403
    assert pa.to_days(1399, 1, 1) == g.to_days(2020, 3, 20)
    assert pa.to_days(1, 1, 1) == j.to_days(622, 3, 19)
    ps = PersianSimple()
    assert ps.to_days(1, 1, 1) == g.to_days(622, 3, 21)


if __name__ == "__main__":
    self_test()
    print("reference calendars self-test OK")
