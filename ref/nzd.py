"""Independent interpreter of the Noda Time ".nzd" time-zone database format.

Written from the format description in the reader/writer/field-id docstrings; shares no code with pyoda_time
(own varint / zig-zag / compact-millisecond decoders, plain ints for instants and offsets).

File  := int32 version (little endian), Field*
Field := id byte, varint length, payload
  0 string pool   : count, (varint length, utf-8 bytes)*
  1 time zone     : pooled id, type byte (1 fixed | 2 precalculated), body
  2 tzdb version  : (varint length, utf-8 bytes)       -- not pooled
  3 id map        : count, (pooled key, pooled value)*
  4..7            : windows zones, additional windows names, zone locations, zone-1970 locations (skipped here)
fixed body         := compact-ms offset [pooled name]
precalculated body := count, transition(start of first period), count x (pooled name, offset, offset, transition),
                      tail flag byte, [alternating map]
transition         := varint v: 0 = start of time, 1 = end of time, 2 = raw (int64 ticks follows),
                      [2^7, 2^21) = hours since previous, >= 2^21 = minutes since 1800-01-01T00:00Z
alternating map    := offset standard, pooled name, year-offset, pooled name, year-offset, offset savings
year-offset        := flags byte (mode<<5 | day-of-week<<2 | advance<<1 | add-day), varint month, zig-zag day,
                      compact-ms time of day
compact-ms (value + 1 day):  0xxxxxxx = units of 30 minutes; 100xxxxx + 1 byte = minutes; 101xxxxx + 2 bytes =
                      seconds; 110xxxxx + 3 bytes = milliseconds
"""

from __future__ import annotations

import struct
from dataclasses import dataclass, field

NS_PER_MS = 10**6
NS_PER_TICK = 100
DAY_MS = 86_400_000
BEFORE_MIN = -(10**30)  # "start of time" sentinel (sorts before every instant)
AFTER_MAX = 10**30  # "end of time" sentinel
# 1800-01-01T00:00Z in ns since the Unix epoch: 1970-01-01 minus 170 years (41 leap days: 1804..1968 minus 1900)
EPOCH_1800_NS = -((170 * 365 + 41) * 86400) * 10**9


class NzdError(Exception):
    pass


class Cursor:
    def __init__(self, data: bytes, pos: int = 0, end: int | None = None, pool: list[str] | None = None, base: int = 0):
        self.d = data
        self.p = pos
        self.end = len(data) if end is None else end
        self.pool = pool
        self.marks: list[tuple[int, str]] = []
        self.base = base

    def mark(self, what: str) -> None:
        self.marks.append((self.base + self.p, what))

    def more(self) -> bool:
        return self.p < self.end

    def byte(self) -> int:
        if self.p >= self.end:
            raise NzdError("unexpected end of data")
        b = self.d[self.p]
        self.p += 1
        return b

    def varint(self) -> int:
        ret = shift = 0
        while True:
            b = self.byte()
            ret |= (b & 0x7F) << shift
            shift += 7
            if b < 0x80:
                return ret

    def count(self) -> int:
        v = self.varint()
        if v > 2**31 - 1:
            raise NzdError("count too large")
        return v

    def signed(self) -> int:
        v = self.varint()
        return (v >> 1) ^ -(v & 1)

    def be(self, n: int) -> int:
        v = 0
        for _ in range(n):
            v = (v << 8) | self.byte()
        return v

    def millis(self) -> int:
        first = self.byte()
        if first & 0x80 == 0:
            v = first * 30 * 60_000
        else:
            flag, data = first & 0xE0, first & 0x1F
            if flag == 0x80:
                v = ((data << 8) | self.byte()) * 60_000
            elif flag == 0xA0:
                v = ((data << 16) | self.be(2)) * 1000
            elif flag == 0xC0:
                v = (data << 24) | self.be(3)
            else:
                raise NzdError("bad compact-ms flag")
        return v - DAY_MS

    def raw_string(self) -> str:
        n = self.count()
        if self.p + n > self.end:
            raise NzdError("string runs past the end")
        s = self.d[self.p : self.p + n].decode("utf-8")
        self.p += n
        return s

    def string(self) -> str:
        if self.pool is None:
            return self.raw_string()
        i = self.count()
        if i >= len(self.pool):
            raise NzdError("pool index out of range")
        return self.pool[i]

    def transition(self, previous: int | None) -> int:
        v = self.count()
        if v < 1 << 7:
            if v == 0:
                return BEFORE_MIN
            if v == 1:
                return AFTER_MAX
            if v == 2:
                t = self.be(8)
                if t >= 1 << 63:
                    t -= 1 << 64
                return t * NS_PER_TICK
            raise NzdError("unknown transition marker")
        if v < 1 << 21:
            if previous is None or previous in (BEFORE_MIN, AFTER_MAX):
                raise NzdError("hours-since-previous without a previous instant")
            return previous + v * 3600 * 10**9
        return EPOCH_1800_NS + v * 60 * 10**9


@dataclass
class YearRule:
    mode: int  # 0 utc, 1 wall, 2 standard
    month: int
    day: int  # negative counts from the end of the month
    dow: int  # 0 = none, 1 = Monday .. 7 = Sunday
    advance: bool
    add_day: bool
    time_ms: int


@dataclass
class Tail:
    standard_offset_ms: int
    std_name: str
    std_rule: YearRule
    dst_name: str
    dst_rule: YearRule
    savings_ms: int


@dataclass
class Period:
    start: int
    end: int
    name: str
    wall_ms: int
    savings_ms: int


@dataclass
class Zone:
    id: str
    kind: str  # "fixed" | "precalculated"
    field_start: int = 0  # absolute offset of the field id byte
    payload_start: int = 0
    payload_end: int = 0
    body_start: int = 0  # absolute offset of the first byte after the type byte
    fixed_offset_ms: int = 0
    fixed_name: str = ""
    periods: list[Period] = field(default_factory=list)
    tail: Tail | None = None
    tail_start: int = AFTER_MAX
    encodings: dict[str, int] = field(default_factory=dict)  # transition encoding census
    marks: list[tuple[int, str]] = field(default_factory=list)  # structural byte offsets (absolute)


@dataclass
class Nzd:
    version: int
    fields: list[tuple[int, int, int, int]]  # (id, field_start, payload_start, payload_end)
    pool: list[str]
    tzdb_version: str
    id_map: dict[str, str]
    zones: dict[str, Zone]
    marks: list[tuple[int, str]]


def read_year_rule(c: Cursor) -> YearRule:
    c.mark("rule-flags")
    flags = c.byte()
    c.mark("rule-month")
    month = c.count()
    c.mark("rule-day")
    day = c.signed()
    c.mark("rule-time")
    t = c.millis()
    return YearRule(flags >> 5, month, day, (flags >> 2) & 7, bool(flags & 2), bool(flags & 1), t)


def parse_zone_body(c: Cursor, z: Zone) -> None:
    if z.kind == "fixed":
        c.mark("fixed-offset")
        z.fixed_offset_ms = c.millis()
        z.fixed_name = c.string() if c.more() else z.id
        return
    c.mark("period-count")
    n = c.count()
    c.mark("transition")
    start = c.transition(None)
    for _ in range(n):
        c.mark("pool-index")
        name = c.string()
        c.mark("offset")
        wall = c.millis()
        c.mark("offset")
        sav = c.millis()
        c.mark("transition")
        p0 = c.p
        nxt = c.transition(start)
        first = c.d[p0]
        width = c.p - p0
        enc = "marker" if width == 1 and first < 2 else ("raw" if first == 2 and width == 9 else ("hours" if nxt - (start if start != BEFORE_MIN else 0) == 0 else ""))
        v = _peek_varint(c.d, p0)
        enc = "marker" if v < 2 else ("raw" if v == 2 else ("hours" if v < 1 << 21 else "minutes"))
        z.encodings[enc] = z.encodings.get(enc, 0) + 1
        z.periods.append(Period(start, nxt, name, wall, sav))
        start = nxt
    z.tail_start = start
    c.mark("tail-flag")
    if c.byte() == 1:
        c.mark("offset")
        std = c.millis()
        c.mark("pool-index")
        sname = c.string()
        srule = read_year_rule(c)
        c.mark("pool-index")
        dname = c.string()
        drule = read_year_rule(c)
        c.mark("offset")
        sav = c.millis()
        z.tail = Tail(std, sname, srule, dname, drule, sav)


def _peek_varint(d: bytes, p: int) -> int:
    ret = shift = 0
    while True:
        b = d[p]
        p += 1
        ret |= (b & 0x7F) << shift
        shift += 7
        if b < 0x80:
            return ret


def parse(data: bytes) -> Nzd:
    if len(data) < 4:
        raise NzdError("no header")
    version = struct.unpack("<i", data[:4])[0]
    if version != 0:
        raise NzdError("unsupported version")
    pos = 4
    fields = []
    marks: list[tuple[int, str]] = []
    while pos < len(data):
        fstart = pos
        fid = data[pos]
        marks.append((pos, "field-id"))
        c = Cursor(data, pos + 1)
        marks.append((pos + 1, "field-length"))
        length = c.count()
        pstart = c.p
        pend = pstart + length
        if pend > len(data):
            raise NzdError("field runs past the end")
        fields.append((fid, fstart, pstart, pend))
        pos = pend
    pool: list[str] | None = None
    tzdb_version = None
    id_map = None
    zones: dict[str, Zone] = {}
    for fid, fstart, pstart, pend in fields:
        if fid == 0:
            c = Cursor(data, pstart, pend)
            c.mark("pool-count")
            cnt = c.count()
            pool = []
            for _ in range(cnt):
                c.mark("pool-string-length")
                pool.append(c.raw_string())
            marks += c.marks
        elif fid == 1:
            if pool is None:
                raise NzdError("zone before string pool")
            c = Cursor(data, pstart, pend, pool)
            c.mark("pool-index")
            zid = c.string()
            c.mark("zone-type")
            t = c.byte()
            if t not in (1, 2):
                raise NzdError("unknown zone type")
            z = Zone(zid, "fixed" if t == 1 else "precalculated", fstart, pstart, pend, c.p)
            parse_zone_body(c, z)
            z.marks = c.marks
            if zid in zones:
                raise NzdError("duplicate zone")
            zones[zid] = z
        elif fid == 2:
            tzdb_version = Cursor(data, pstart, pend).raw_string()
        elif fid == 3:
            c = Cursor(data, pstart, pend, pool)
            c.mark("map-count")
            cnt = c.count()
            id_map = {}
            for _ in range(cnt):
                c.mark("pool-index")
                k = c.string()
                c.mark("pool-index")
                id_map[k] = c.string()
            marks += c.marks
    if pool is None or tzdb_version is None or id_map is None:
        raise NzdError("incomplete file")
    return Nzd(version, fields, pool, tzdb_version, id_map, zones, marks)
