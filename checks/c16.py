"""C16 - week-year rules and weekday navigation are self-consistent and match ISO 8601.

71 rules: ISO; 7 x 7 regular (min days in first week x first day of week); 3 x 7 BCL-style irregular.
Oracles: inverse relation (get_local_date), monotone walk invariants, the rule's own definition re-derived
from year starts (regular rules), datetime.date.isocalendar (ISO rule), <=7-step scans (next/previous), month
scans (n-th weekday).
"""

from __future__ import annotations

import calendar as _pycal
import datetime as dt

from hypothesis import strategies as st

from harness import pyo
from harness.core import CaseInfo, Ctx, InvalidCase, Mismatch, Task, sub_seed
from harness.gen import run_hypothesis

PROPERTY = "C16"
LEVEL = "exploration"
RULE = (
    "71 week-year rules x calendars x contiguous day windows of +/-10 days around year boundaries (ISO calendar: a "
    "seed-chosen set of years in quick, every year in thorough; other calendars sampled) and at both calendar range "
    "ends; ISO rule vs date.isocalendar over all 3652059 ordinals; n-th weekday over every (year, month, occurrence, "
    "weekday) of seed-chosen years (quick) or all years 1-9999 (thorough); next/previous/adjusters on generated dates "
    "of every calendar incl. the field-setting adjusters (day_of_month, month) and invalid weekdays. Non-trivial: week-year != calendar year, week >= 52, or within 7 days of a range end; "
    "distinct by construction (enumerations) or (kind, case) hash."
)
ASSUMPTIONS = ["ISO day-of-week = (day number + 3) mod 7 + 1 (checked against datetime in C02)"]

ORD_EPOCH = 719163
MAX_ORD = 3652059
RAISES = (ValueError, OverflowError)


def exhaustive(tier: str) -> bool:
    return False


def need(cond: bool, sig: str, msg: str = "") -> None:
    if not cond:
        raise Mismatch(sig, msg)


def eval_case(kind: str, c: dict) -> CaseInfo:
    return globals()["_k_" + kind](c)


def rule_specs() -> list[list]:
    specs: list[list] = [["iso"]]
    for md in range(1, 8):
        for fd in range(1, 8):
            specs.append(["regular", md, fd])
    for cw in (0, 1, 2):
        for fd in range(1, 8):
            specs.append(["bcl", cw, fd])
    return specs


def make_rule(spec):
    from pyoda_time import IsoDayOfWeek
    from pyoda_time.calendars import CalendarWeekRule, WeekYearRules

    if spec[0] == "iso":
        return WeekYearRules.iso, 4, 1, False
    if spec[0] == "regular":
        if len(spec) != 3 or not (1 <= spec[1] <= 7 and 1 <= spec[2] <= 7):
            raise InvalidCase
        return WeekYearRules.for_min_days_in_first_week(spec[1], IsoDayOfWeek(spec[2])), spec[1], spec[2], False
    if spec[0] != "bcl" or len(spec) != 3 or spec[1] not in (0, 1, 2) or not 1 <= spec[2] <= 7:
        raise InvalidCase
    cw = CalendarWeekRule(spec[1])
    md = {CalendarWeekRule.FIRST_DAY: 1, CalendarWeekRule.FIRST_FOUR_DAY_WEEK: 4, CalendarWeekRule.FIRST_FULL_WEEK: 7}[cw]
    return WeekYearRules.from_calendar_week_rule(cw, IsoDayOfWeek(spec[2])), md, spec[2], True


def dow_of(n: int) -> int:
    return (n + 3) % 7 + 1


class YearStarts:
    """Year starts of one calendar by day number, through public date fields (valid beyond the ends by extrapolation)."""

    def __init__(self, cid: str):
        self.cid = cid
        self.cal = pyo.cal(cid)
        self.cache: dict[int, int] = {}

    def start(self, y: int) -> int:
        from pyoda_time import LocalDate

        if y in self.cache:
            return self.cache[y]
        c = self.cal
        if c.min_year <= y <= c.max_year:
            d = LocalDate(y, 1, 1, c)
            v = d._days_since_epoch - (d.day_of_year - 1)
        elif y == c.max_year + 1:
            v = c._max_days + 1
        elif y == c.min_year - 1:
            v = c._min_days - 365  # only its week structure near min_days matters; length is irrelevant for callers
        else:
            raise InvalidCase
        self.cache[y] = v
        return v


def first_week_start(ys: YearStarts, y: int, min_days: int, fdow: int) -> int:
    st_ = ys.start(y)
    into = (dow_of(st_) - fdow) % 7
    s = st_ - into
    return s if 7 - into >= min_days else s + 7


def expected_regular(ys: YearStarts, n: int, y: int, min_days: int, fdow: int) -> tuple[int, int]:
    """(week-year, week) of day n (calendar year y) by the definition: week 1 is the first week (starting on fdow)
    with at least min_days days in the year; weeks are whole and advance every 7 days."""
    s = n - (dow_of(n) - fdow) % 7
    if s >= first_week_start(ys, y + 1, min_days, fdow) if y + 1 <= ys.cal.max_year + 1 else False:
        wy = y + 1
    elif n >= first_week_start(ys, y, min_days, fdow):
        wy = y
    else:
        wy = y - 1
    return wy, (s - first_week_start(ys, wy, min_days, fdow)) // 7 + 1


def walk(ctx: Ctx, spec, cid: str, lo: int, hi: int, ys: YearStarts | None = None, made=None) -> tuple[int, int]:
    """Contiguous walk of [lo, hi] for one rule and calendar. Returns (evaluations, non-trivial).
    `made` lets several walks (different calendars) share ONE rule object, as applications do."""
    rule, min_days, fdow, irregular = made or make_rule(spec)
    cal = pyo.cal(cid)
    ys = ys or YearStarts(cid)
    prev = None
    nt = 0
    for n in range(lo, hi + 1):
        case = {"rule": spec, "cal": cid, "n": n}
        try:
            d = pyo.date_from_day(cid, n)
            wy = rule.get_week_year(d)
            w = rule.get_week_of_week_year(d)
            dow = d.day_of_week
            need(int(dow) == dow_of(n), "day_of_week", f"day {n}: {dow}")
            try:
                back = rule.get_local_date(wy, w, dow, cal)
            except ValueError as e:
                raise Mismatch("roundtrip-rejected", f"{pyo.fmt_date(d)} -> ({wy},{w},{int(dow)}) rejected: {e}") from None
            need(back == d, "roundtrip", f"{pyo.fmt_date(d)} -> ({wy},{w},{int(dow)}) -> {pyo.fmt_date(back)}")
            wiy = rule.get_weeks_in_week_year(wy, cal)
            need(1 <= w <= wiy, "week-range", f"{pyo.fmt_date(d)}: week {w} of {wy}, weeks_in_week_year {wiy}")
            need(abs(wy - d.year) <= 1, "week-year-far", f"{pyo.fmt_date(d)}: {wy}")
            if not irregular and cal.min_year <= wy <= cal.max_year:
                exp = expected_regular(ys, n, d.year, min_days, fdow)
                need((wy, w) == exp, "definition", f"{pyo.fmt_date(d)} rule {spec}: got {(wy, w)} expected {exp}")
            if prev is not None:
                pwy, pw, pyear = prev
                if dow_of(n) == fdow:
                    # weeks advance by one every seven days from the rule's first day of week
                    need((wy, w) in ((pwy, pw + 1), (pwy + 1, 1)), "advance", f"{pyo.fmt_date(d)} rule {spec}: {(pwy, pw)} -> {(wy, w)}")
                elif irregular and d.year != pyear:
                    # BCL-style rules may (not must) start week 1 of the new week-year on the first day of the year
                    need((wy, w) in ((pwy, pw), (pwy + 1, 1)), "year-start-step", f"{pyo.fmt_date(d)} rule {spec}: {(pwy, pw)} -> {(wy, w)}")
                else:
                    need((wy, w) == (pwy, pw), "changed-mid-week", f"{pyo.fmt_date(d)} rule {spec}: {(pwy, pw)} -> {(wy, w)}")
            prev = (wy, w, d.year)
            if wy != d.year or w >= 52 or n - cal._min_days < 7 or cal._max_days - n < 7:
                nt += 1
        except Mismatch as m:
            ctx.fail("walk", case, m.sig, m.msg)
            prev = None
        except InvalidCase:
            prev = None
        except Exception as e:  # noqa: BLE001
            ctx.fail_exc("walk", case, e)
            prev = None
    return hi - lo + 1, nt


def _k_walk(c) -> CaseInfo:
    """Replay entry: one day and its predecessor."""
    cal = pyo.cal(c["cal"])
    n = c["n"]
    if not cal._min_days <= n <= cal._max_days:
        raise InvalidCase

    class _C:
        def __init__(self):
            self.f = None

        def fail(self, kind, case, sig, msg):
            self.f = Mismatch(sig, msg)

        def fail_exc(self, kind, case, e):
            self.f = e

    cc = _C()
    walk(cc, c["rule"], c["cal"], max(cal._min_days, n - 1), n)  # type: ignore[arg-type]
    if cc.f is not None:
        raise cc.f
    return CaseInfo(True, "walk")


def check_iso_ordinal(rule, o: int) -> None:
    from pyoda_time import IsoDayOfWeek, LocalDate

    sd = dt.date.fromordinal(o)
    iy, iw, idow = sd.isocalendar()
    d = LocalDate(sd.year, sd.month, sd.day)
    wy, w = rule.get_week_year(d), rule.get_week_of_week_year(d)
    need((wy, w, int(d.day_of_week)) == (iy, iw, idow), "iso-vs-isocalendar", f"{sd}: {(wy, w, int(d.day_of_week))} vs {(iy, iw, idow)}")
    if 1 <= iy <= 9999:
        need(LocalDate.from_week_year_week_and_day(iy, iw, IsoDayOfWeek(idow)) == d, "from_week_year_week_and_day", f"{sd}")
        if sd.month == 12 and sd.day == 28:
            need(rule.get_weeks_in_week_year(iy) == iw, "iso-weeks-in-year", f"{iy}: {rule.get_weeks_in_week_year(iy)} vs {iw}")


def _k_iso_ord(c) -> CaseInfo:
    from pyoda_time.calendars import WeekYearRules

    if not 1 <= c["o"] <= MAX_ORD:
        raise InvalidCase
    check_iso_ordinal(WeekYearRules.iso, c["o"])
    return CaseInfo(True, "iso_ord")


def nth_expected(y: int, m: int, occ: int, dow: int) -> int:
    days = [d for d in range(1, _pycal.monthrange(y, m)[1] + 1) if dt.date(y, m, d).isoweekday() == dow]
    return days[occ - 1] if occ <= len(days) else days[-1]


def _k_nth(c) -> CaseInfo:
    from pyoda_time import IsoDayOfWeek, LocalDate

    y, m, occ, dow = c["y"], c["m"], c["occ"], c["dow"]
    if not (1 <= y <= 9999 and 1 <= m <= 12):
        raise InvalidCase
    valid = 1 <= occ <= 5 and 1 <= dow <= 7
    try:
        r = LocalDate.from_year_month_week_and_day(y, m, occ, IsoDayOfWeek(dow) if 0 <= dow <= 7 else dow)
    except ValueError:
        need(not valid, "nth/valid-rejected", f"{c}")
        return CaseInfo(True, "nth:rejected")
    need(valid, "nth/invalid-accepted", f"{c} -> {pyo.fmt_date(r)}")
    exp = nth_expected(y, m, occ, dow)
    need((r.year, r.month, r.day) == (y, m, exp) and r.calendar.id == "ISO", "nth/value", f"{c}: got {pyo.fields(r)} expected day {exp}")
    return CaseInfo(occ == 5 or exp <= 7, "nth")


def _k_nav(c) -> CaseInfo:
    from pyoda_time import DateAdjusters, IsoDayOfWeek

    cid, n, dow = c["cal"], c["n"], c["dow"]
    cal = pyo.cal(cid)
    if not (cal._min_days <= n <= cal._max_days and 1 <= dow <= 7):
        raise InvalidCase
    d = pyo.date_from_day(cid, n)
    D = IsoDayOfWeek(dow)
    cur = dow_of(n)
    fwd = (dow - cur) % 7
    bwd = (cur - dow) % 7
    exp = {
        "next": n + (fwd or 7),
        "previous": n - (bwd or 7),
        "next_or_same": n + fwd,
        "previous_or_same": n - bwd,
    }
    calls = {
        "next": [lambda: d.next(D), lambda: DateAdjusters.next(D)(d), lambda: d.with_date_adjuster(DateAdjusters.next(D))],
        "previous": [lambda: d.previous(D), lambda: DateAdjusters.previous(D)(d)],
        "next_or_same": [lambda: DateAdjusters.next_or_same(D)(d)],
        "previous_or_same": [lambda: DateAdjusters.previous_or_same(D)(d)],
    }
    edge = False
    for name, fns in calls.items():
        e = exp[name]
        inside = cal._min_days <= e <= cal._max_days
        edge = edge or not inside
        for fn in fns:
            try:
                r = fn()
            except RAISES:
                need(not inside, f"{name}/raised-in-range", f"{pyo.fmt_date(d)} -> day {e}")
                continue
            need(inside, f"{name}/out-of-range-not-raised", f"{pyo.fmt_date(d)}")
            need(r._days_since_epoch == e and r.calendar is cal and int(r.day_of_week) == dow, f"{name}/value", f"{pyo.fmt_date(d)} dow {dow}: got day {r._days_since_epoch} expected {e}")
    ldt = d.at_midnight().plus_nanoseconds(12345)
    if cal._min_days <= exp["next"] <= cal._max_days:
        r = ldt.next(D)
        need(r.date._days_since_epoch == exp["next"] and r.nanosecond_of_day == 12345, "ldt.next")
    if cal._min_days <= exp["previous"] <= cal._max_days:
        r = ldt.previous(D)
        need(r.date._days_since_epoch == exp["previous"] and r.nanosecond_of_day == 12345, "ldt.previous")
    # month adjusters
    som, eom = DateAdjusters.start_of_month(d), DateAdjusters.end_of_month(d)
    need(pyo.fields(som) == (d.year, d.month, 1) and pyo.fields(eom) == (d.year, d.month, cal.get_days_in_month(d.year, d.month)), "start/end_of_month")
    # field-setting adjusters: the named field changes, the others stay; an impossible combination raises
    k_day = 1 + (n + dow) % 31
    dim = cal.get_days_in_month(d.year, d.month)
    try:
        r = DateAdjusters.day_of_month(k_day)(d)
    except RAISES:
        need(k_day > dim, "day_of_month/raised-for-valid-day", f"{pyo.fmt_date(d)} day {k_day}")
    else:
        need(k_day <= dim and pyo.fields(r) == (d.year, d.month, k_day) and r.calendar is cal, "day_of_month/value", f"{pyo.fmt_date(d)} day {k_day} -> {pyo.fmt_date(r)}")
    k_month = 1 + (n // 7 + dow) % (cal.get_months_in_year(d.year) + 1)
    valid = k_month <= cal.get_months_in_year(d.year) and d.day <= cal.get_days_in_month(d.year, k_month)
    try:
        r = DateAdjusters.month(k_month)(d)
    except RAISES:
        need(not valid, "month/raised-for-valid-month", f"{pyo.fmt_date(d)} month {k_month}")
    else:
        need(valid and pyo.fields(r) == (d.year, k_month, d.day) and r.calendar is cal, "month/value", f"{pyo.fmt_date(d)} month {k_month} -> {pyo.fmt_date(r)}")
    for bad in (0, 8, -1):
        for mk in (DateAdjusters.next, DateAdjusters.previous, DateAdjusters.next_or_same, DateAdjusters.previous_or_same):
            try:
                mk(bad)
            except (ValueError, TypeError):
                continue
            raise Mismatch(f"{mk.__name__}/invalid-weekday-accepted", f"{bad}")
    return CaseInfo(edge or fwd == 0, "nav:edge" if edge else "nav")


# ---------------------------------------------------------------------------------------------------------------


def task_walks(ctx: Ctx, cal: str, specs: list, windows: list[list[int]]) -> None:
    ys = YearStarts(cal)
    ev = nt = 0
    for spec in specs:
        for lo, hi in windows:
            e, t = walk(ctx, spec, cal, lo, hi, ys)
            ev += e
            nt += t
    ctx.bulk(ev, nt, f"walk:{cal}")
    ctx.sample("walk", {"rule": specs[0], "cal": cal, "n": windows[0][0], "to": windows[0][1]}, True)


def task_shared_rule(ctx: Ctx, specs: list, years: list[int]) -> None:
    """One rule object per spec, used across ALL calendars for the same week-year numbers (a rule is a value object:
    its answers must not depend on which calendars it was asked about before)."""
    ev = nt = 0
    yss = {cid: YearStarts(cid) for cid in pyo.cal_ids()}
    for spec in specs:
        made = make_rule(spec)
        for y in years:
            for cid in pyo.cal_ids():
                c = pyo.cal(cid)
                if not c.min_year <= y <= c.max_year:
                    continue
                s0 = yss[cid].start(y)
                lo, hi = max(c._min_days, s0 - 9), min(c._max_days, s0 + 9)
                e, t = walk(ctx, spec, cid, lo, hi, yss[cid], made)
                ev += e
                nt += t
    ctx.bulk(ev, nt, "walk:shared-rule")
    ctx.sample("walk", {"rule": specs[0], "cal": "Hijri Civil-Base15", "n": 0, "shared_rule_over_all_calendars_for_years": years[:5]}, True)


def task_iso(ctx: Ctx, lo: int, hi: int) -> None:
    from pyoda_time.calendars import WeekYearRules

    rule = WeekYearRules.iso
    nt = 0
    for o in range(lo, hi):
        try:
            check_iso_ordinal(rule, o)
        except Mismatch as m:
            ctx.fail("iso_ord", {"o": o}, m.sig, m.msg)
        except Exception as e:  # noqa: BLE001
            ctx.fail_exc("iso_ord", {"o": o}, e)
        sd = dt.date.fromordinal(o)
        if (sd.month == 1 and sd.day <= 4) or (sd.month == 12 and sd.day >= 28):
            nt += 1
    ctx.bulk(hi - lo, nt, "iso:enumerated")
    ctx.sample("iso_ord", {"o": lo}, True)


def task_nth(ctx: Ctx, years: list[int]) -> None:
    for y in years:
        for m in range(1, 13):
            for occ in range(1, 6):
                for dow in range(1, 8):
                    ctx.case("nth", {"y": y, "m": m, "occ": occ, "dow": dow})
    for bad in ({"y": 2012, "m": 4, "occ": 0, "dow": 1}, {"y": 2012, "m": 4, "occ": 6, "dow": 1}, {"y": 2012, "m": 4, "occ": 1, "dow": 0}):
        ctx.case("nth", bad)


def task_nav(ctx: Ctx, shard: int, n: int) -> None:
    s = sub_seed(ctx.seed, "c16nav", shard)

    def body(cd, dow, edge):
        cid, n_ = cd
        c = pyo.cal(cid)
        ctx.case("nav", {"cal": cid, "n": n_, "dow": dow})
        ctx.case("nav", {"cal": cid, "n": (c._min_days + edge) if edge % 2 else (c._max_days - edge), "dow": dow})

    run_hypothesis(body, dict(cd=pyo.st_cal_day(), dow=st.integers(1, 7), edge=st.integers(0, 9)), n, s)


def _windows(cid: str, years: list[int]) -> list[list[int]]:
    c = pyo.cal(cid)
    ys = YearStarts(cid)
    raw = []
    for y in years:
        if c.min_year <= y <= c.max_year:
            s = ys.start(y)
            raw.append([max(c._min_days, s - 10), min(c._max_days, s + 10)])
    raw.append([c._min_days, min(c._max_days, c._min_days + 20)])
    raw.append([max(c._min_days, c._max_days - 20), c._max_days])
    raw.sort()
    merged: list[list[int]] = []
    for a, b in raw:
        if merged and a <= merged[-1][1] + 1:
            merged[-1][1] = max(merged[-1][1], b)
        else:
            merged.append([a, b])
    return merged


def tasks(tier: str, seed: int) -> list[Task]:
    out: list[Task] = []
    specs = rule_specs()
    thorough = tier == "thorough"
    k = 32
    size = MAX_ORD // k + 1
    out += [Task("task_iso", {"lo": 1 + j * size, "hi": min(MAX_ORD + 1, 1 + (j + 1) * size)}, f"iso-{j}") for j in range(k)]
    for cid in pyo.cal_ids():
        c = pyo.cal(cid)
        ny = c.max_year - c.min_year + 1
        if cid == "ISO":
            cnt = ny if thorough else 260
        else:
            cnt = min(ny, 600 if thorough else 24)
        if cnt >= ny:
            years = list(range(c.min_year, c.max_year + 1))
        else:
            years = sorted({c.min_year + sub_seed(seed, "c16y", cid, i) % ny for i in range(cnt)} | {c.min_year, c.min_year + 1, c.max_year})
        wins = _windows(cid, years)
        # split: rule groups x window chunks
        groups = [specs[i::8] for i in range(8)] if (thorough or cid == "ISO") else [specs[i::2] for i in range(2)]
        wchunks = [wins[i :: (6 if thorough and cid == "ISO" else 1)] for i in range(6 if thorough and cid == "ISO" else 1)]
        for gi, g in enumerate(groups):
            for wi, wc in enumerate(wchunks):
                if g and wc:
                    out.append(Task("task_walks", {"cal": cid, "specs": g, "windows": wc}, f"walk-{cid}-{gi}-{wi}"))
    # shared rule objects across calendars (years that exist in most calendars, incl. the Um Al Qura / Badi ranges)
    shared_years = sorted({1 + sub_seed(seed, "c16s", i) % 1400 for i in range(12 if not thorough else 200)} | {1394, 1400, 180, 5})
    for gi in range(8):
        out.append(Task("task_shared_rule", {"specs": specs[gi::8], "years": shared_years}, f"shared-{gi}"))
    if thorough:
        ylist = list(range(1, 10000))
    else:
        ylist = sorted({1 + sub_seed(seed, "c16n", i) % 9999 for i in range(600)} | {1, 2, 1582, 1900, 2000, 2012, 9998, 9999})
    for i in range(8):
        out.append(Task("task_nth", {"years": ylist[i::8]}, f"nth-{i}"))
    for i in range(4):
        out.append(Task("task_nav", {"shard": i, "n": 1500 if not thorough else 30000}, f"nav-{i}"))
    return out
