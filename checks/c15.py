"""C15 - conversions to and from Python's datetime types are exact and round-trip.

Oracle: the standard library itself (identity of stdlib -> pyoda -> stdlib) and an int reference conversion
(Gregorian fields of the same day number, time floored to microseconds, durations truncated toward zero).
"""

from __future__ import annotations

import datetime as dt

from hypothesis import strategies as st

from harness import pyo
from harness import zones as Z
from harness.core import CaseInfo, Ctx, InvalidCase, Mismatch, Task, sub_seed
from harness.gen import ints_biased, run_hypothesis

PROPERTY = "C15"
LEVEL = "exploration"
RULE = (
    "datetime.date: all 3652059 ordinals enumerated (both tiers). Generated: times/naive datetimes over the full "
    "stdlib range with min/max/microsecond edges, aware datetimes with fixed whole-second offsets within +/-18 h, "
    "timedeltas from timedelta.min to timedelta.max, and Pyoda values of every calendar inside and just outside the "
    "stdlib range with sub-microsecond remainders. Non-trivial: year 1 or 9999, a sub-microsecond remainder, a "
    "negative duration, a non-ISO calendar, or an out-of-range value that must raise. Distinct = (kind, case) hash."
)
ASSUMPTIONS = ["out-of-range conversions may raise ValueError, OverflowError or RuntimeError (the documented kinds)"]

DAY = pyo.DAY
SEC = 10**9
US_DAY = 86400 * 10**6
ORD_EPOCH = 719163
MAX_ORD = 3652059
INST_MIN = -4371222 * DAY
INST_MAX = (2932896 + 1) * DAY - 1
RAISES = (ValueError, OverflowError, RuntimeError)
TD_MIN_US = -999999999 * US_DAY
TD_MAX_US = 999999999 * US_DAY + US_DAY - 1
DUR_MIN = -(1 << 30) * DAY
DUR_MAX = (1 << 30) * DAY - 1


def exhaustive(tier: str) -> bool:
    return False


def need(cond: bool, sig: str, msg: str = "") -> None:
    if not cond:
        raise Mismatch(sig, msg)


def eval_case(kind: str, c: dict) -> CaseInfo:
    return globals()["_k_" + kind](c)


def time_from_us(us: int) -> dt.time:
    s, micro = divmod(us, 10**6)
    return dt.time(s // 3600, s // 60 % 60, s % 60, micro)


def dt_from(o: int, us: int) -> dt.datetime:
    return dt.datetime.combine(dt.date.fromordinal(o), time_from_us(us))


def check_date_ordinal(o: int) -> None:
    from pyoda_time import LocalDate

    d = dt.date.fromordinal(o)
    ld = LocalDate.from_date(d)
    need((ld.year, ld.month, ld.day) == (d.year, d.month, d.day), "from_date/fields", f"{d} -> {pyo.fields(ld)}")
    need(ld.calendar.id == "ISO", "from_date/calendar")
    need(ld._days_since_epoch == o - ORD_EPOCH, "from_date/day")
    back = ld.to_date()
    need(back == d and type(back) is dt.date, "to_date/roundtrip", f"{d} -> {back}")


def _k_date_ord(c) -> CaseInfo:
    o = c["o"]
    if not 1 <= o <= MAX_ORD:
        raise InvalidCase
    check_date_ordinal(o)
    return CaseInfo(True, "date_ord")


def _k_ld_to_date(c) -> CaseInfo:
    cid, n = c["cal"], c["n"]
    cal = pyo.cal(cid)
    if not cal._min_days <= n <= cal._max_days:
        raise InvalidCase
    ld = pyo.date_from_day(cid, n)
    o = n + ORD_EPOCH
    try:
        r = ld.to_date()
    except RAISES:
        need(not 1 <= o <= MAX_ORD, f"to_date/raised-in-range", f"{cid} day {n}")
        return CaseInfo(True, "ld_to_date:raises")
    need(1 <= o <= MAX_ORD, "to_date/out-of-range-not-raised", f"{cid} day {n} -> {r}")
    need(r == dt.date.fromordinal(o), "to_date/value", f"{cid} day {n}: {r} != {dt.date.fromordinal(o)}")
    return CaseInfo(cid != "ISO" or o <= 366 or o >= MAX_ORD - 366, "ld_to_date")


def _k_time(c) -> CaseInfo:
    from pyoda_time import LocalTime

    us = c["us"]
    if not 0 <= us < US_DAY:
        raise InvalidCase
    t = time_from_us(us)
    lt = LocalTime.from_time(t)
    need(lt.nanosecond_of_day == us * 1000, "from_time", f"{t} -> {lt.nanosecond_of_day}")
    need(lt.to_time() == t, "to_time/roundtrip", f"{t} -> {lt.to_time()}")
    rem = c.get("rem", 0) % 1000
    lt2 = LocalTime.from_nanoseconds_since_midnight(us * 1000 + rem)
    need(lt2.to_time() == t, "to_time/floor-us", f"ns {us * 1000 + rem}: {lt2.to_time()} != {t}")
    return CaseInfo(rem != 0 or us in (0, US_DAY - 1), "time")


def expected_naive(total_ns: int):
    """datetime for a local total (day*DAY + nod), floored to microseconds, or None when outside the range."""
    day, nod = divmod(total_ns, DAY)
    o = day + ORD_EPOCH
    if not 1 <= o <= MAX_ORD:
        return None
    return dt_from(o, nod // 1000)


def _k_ndt(c) -> CaseInfo:
    from pyoda_time import LocalDateTime

    o, us, cid = c["o"], c["us"], c["cal"]
    if not (1 <= o <= MAX_ORD and 0 <= us < US_DAY):
        raise InvalidCase
    d = dt_from(o, us)
    ldt = LocalDateTime.from_naive_datetime(d)
    need(
        (ldt.year, ldt.month, ldt.day, ldt.hour, ldt.minute, ldt.second, ldt.nanosecond_of_second) == (d.year, d.month, d.day, d.hour, d.minute, d.second, d.microsecond * 1000),
        "from_naive_datetime/fields",
        f"{d.isoformat()}",
    )
    need(ldt.calendar.id == "ISO", "from_naive_datetime/calendar")
    try:
        back = ldt.to_naive_datetime()
    except RAISES as e:
        raise Mismatch("to_naive_datetime/raised-in-range", f"{d.isoformat()}: {type(e).__name__}: {e}") from None
    need(back == d and back.tzinfo is None, "to_naive_datetime/roundtrip", f"{d.isoformat()} -> {back.isoformat()}")
    cal = pyo.cal(cid)
    n = o - ORD_EPOCH
    try:
        lc = LocalDateTime.from_naive_datetime(d, cal)
    except RAISES:
        need(not cal._min_days <= n <= cal._max_days, "from_naive_datetime(cal)/raised-in-range", f"{cid}")
    else:
        need(cal._min_days <= n <= cal._max_days, "from_naive_datetime(cal)/out-of-range-not-raised")
        need(lc.calendar is cal and pyo.ldt_total(lc) == n * DAY + us * 1000, "from_naive_datetime(cal)/value", f"{cid} {d.isoformat()}")
        need(lc.to_naive_datetime() == d, "to_naive_datetime(cal)/roundtrip", f"{cid} {d.isoformat()}")
    return CaseInfo(d.year in (1, 9999) or cid != "ISO", "ndt:year1" if d.year == 1 else "ndt")


def _k_ldt_to_naive(c) -> CaseInfo:
    cid, n, nod = c["cal"], c["n"], c["nod"]
    cal = pyo.cal(cid)
    if not (cal._min_days <= n <= cal._max_days and 0 <= nod < DAY):
        raise InvalidCase
    ldt = pyo.ldt_from(cid, n, nod)
    exp = expected_naive(n * DAY + nod)
    try:
        r = ldt.to_naive_datetime()
    except RAISES:
        need(exp is None, "to_naive_datetime/raised-in-range", f"{cid} day {n} nod {nod} (expected {exp})")
        return CaseInfo(True, "ldt_to_naive:raises")
    need(exp is not None, "to_naive_datetime/out-of-range-not-raised", f"{cid} day {n} -> {r}")
    need(r == exp and r.tzinfo is None, "to_naive_datetime/value", f"{cid} day {n} nod {nod}: {r} != {exp}")
    return CaseInfo(cid != "ISO" or nod % 1000 != 0 or exp.year in (1, 9999), "ldt_to_naive")


def _k_adt(c) -> CaseInfo:
    from pyoda_time import Instant, OffsetDateTime

    o, us, off = c["o"], c["us"], c["off"]
    if not (1 <= o <= MAX_ORD and 0 <= us < US_DAY and abs(off) <= 18 * 3600):
        raise InvalidCase
    tz = dt.timezone(dt.timedelta(seconds=off))
    d = dt_from(o, us).replace(tzinfo=tz)
    local_total = (o - ORD_EPOCH) * DAY + us * 1000
    inst_ns = local_total - off * SEC
    odt = OffsetDateTime.from_aware_datetime(d)
    need(odt.offset.seconds == off, "from_aware_datetime/offset", f"{odt.offset.seconds} != {off}")
    need(pyo.ldt_total(odt.local_date_time) == local_total, "from_aware_datetime/local")
    back = odt.to_aware_datetime()
    need(back == d and back.utcoffset() == d.utcoffset() and back.replace(tzinfo=None) == d.replace(tzinfo=None), "to_aware_datetime/roundtrip", f"{d.isoformat()} -> {back.isoformat()}")
    try:
        i = Instant.from_aware_datetime(d)
    except RAISES:
        # the instant itself lies beyond Instant.max_value (local 9999-12-31T23:59:59.x with a negative offset)
        need(not INST_MIN <= inst_ns <= INST_MAX, "Instant.from_aware_datetime/raised-in-range", f"{d.isoformat()}")
        return CaseInfo(True, "adt:instant-out-of-range")
    need(INST_MIN <= inst_ns <= INST_MAX, "Instant.from_aware_datetime/out-of-range-not-raised", f"{d.isoformat()}")
    need(i._time_since_epoch.to_nanoseconds() == inst_ns, "Instant.from_aware_datetime", f"{d.isoformat()}: {i._time_since_epoch.to_nanoseconds()} != {inst_ns}")
    exp = expected_naive(inst_ns)
    try:
        u = i.to_datetime_utc()
    except RAISES:
        need(exp is None, "to_datetime_utc/raised-in-range", f"{d.isoformat()}")
    else:
        need(exp is not None, "to_datetime_utc/out-of-range-not-raised")
        need(u == d and u.utcoffset() == dt.timedelta(0) and u.replace(tzinfo=None) == exp, "to_datetime_utc/value", f"{d.isoformat()} -> {u.isoformat()}")
    return CaseInfo(d.year in (1, 9999) or exp is None or (local_total // DAY) != (inst_ns // DAY), "adt")


def _k_adt_inst(c) -> CaseInfo:
    """Instant.from_aware_datetime for any fixed utcoffset the standard library allows (microsecond precision,
    strictly within +/- 24 h): the instant is local time minus offset, exactly."""
    from pyoda_time import Instant

    o, us, off_us = c["o"], c["us"], c["off_us"]
    if not (1 <= o <= MAX_ORD and 0 <= us < US_DAY and abs(off_us) < US_DAY):
        raise InvalidCase
    d = dt_from(o, us).replace(tzinfo=dt.timezone(dt.timedelta(microseconds=off_us)))
    inst_ns = (o - ORD_EPOCH) * DAY + us * 1000 - off_us * 1000
    try:
        i = Instant.from_aware_datetime(d)
    except RAISES:
        need(not INST_MIN <= inst_ns <= INST_MAX, "Instant.from_aware_datetime/raised-in-range", f"{d.isoformat()}")
        return CaseInfo(True, "adt_inst:out-of-range")
    need(INST_MIN <= inst_ns <= INST_MAX, "Instant.from_aware_datetime/out-of-range-not-raised", f"{d.isoformat()}")
    got = Z.ns(i)
    need(got == inst_ns, "Instant.from_aware_datetime", f"{d.isoformat()}: {got} != {inst_ns} (delta {got - inst_ns})")
    exp = expected_naive(inst_ns)
    if exp is not None:
        u = i.to_datetime_utc()
        need(u == d and u.replace(tzinfo=None) == exp, "to_datetime_utc/value", f"{d.isoformat()} -> {u.isoformat()}")
    return CaseInfo(off_us % 10**6 != 0 or abs(off_us) > 18 * 3600 * 10**6, "adt_inst")


def _k_inst_to_dt(c) -> CaseInfo:
    from pyoda_time import Instant, Offset

    i, off, cid = c["i"], c["off"], c["cal"]
    if not (INST_MIN <= i <= INST_MAX and abs(off) <= 18 * 3600):
        raise InvalidCase
    I = Instant._ctor(days=i // DAY, nano_of_day=i % DAY)
    exp = expected_naive(i)
    try:
        u = I.to_datetime_utc()
    except RAISES:
        need(exp is None, "to_datetime_utc/raised-in-range", f"i={i}")
    else:
        need(exp is not None, "to_datetime_utc/out-of-range-not-raised", f"i={i} -> {u}")
        need(u.replace(tzinfo=None) == exp and u.utcoffset() == dt.timedelta(0), "to_datetime_utc/value", f"i={i}: {u.isoformat()} != {exp.isoformat()}")
    # OffsetDateTime in any calendar -> aware datetime
    cal = pyo.cal(cid)
    local = i + off * SEC
    if cal._min_days <= local // DAY <= cal._max_days:
        odt = I.with_offset(Offset.from_seconds(off), cal)
        expl = expected_naive(local)
        try:
            a = odt.to_aware_datetime()
        except RAISES:
            need(expl is None, "to_aware_datetime/raised-in-range", f"i={i} off={off} cal={cid}")
        else:
            need(expl is not None, "to_aware_datetime/out-of-range-not-raised", f"i={i} off={off} cal={cid}")
            need(a.replace(tzinfo=None) == expl and a.utcoffset() == dt.timedelta(seconds=off), "to_aware_datetime/value", f"i={i} off={off} cal={cid}: {a.isoformat()}")
    return CaseInfo(i % 1000 != 0 or exp is None or cid != "ISO", "inst_to_dt")


def _k_td(c) -> CaseInfo:
    from pyoda_time import Duration

    us = c["us"]
    if not TD_MIN_US <= us <= TD_MAX_US:
        raise InvalidCase
    td = dt.timedelta(microseconds=us)
    d = Duration.from_timedelta(td)
    need(d.to_nanoseconds() == us * 1000, "from_timedelta", f"{us} us -> {d.to_nanoseconds()}")
    back = d.to_timedelta()
    need(back == td, "to_timedelta/roundtrip", f"{td!r} -> {back!r}")
    return CaseInfo(us < 0 or us in (TD_MIN_US, TD_MAX_US), "td")


def _k_dur_to_td(c) -> CaseInfo:
    from pyoda_time import Duration

    ns = c["ns"]
    if not DUR_MIN <= ns <= DUR_MAX:
        raise InvalidCase
    d = Duration.from_nanoseconds(ns)
    us = abs(ns) // 1000 * (1 if ns >= 0 else -1)
    try:
        r = d.to_timedelta()
    except RAISES:
        need(not TD_MIN_US <= us <= TD_MAX_US, "to_timedelta/raised-in-range", f"ns={ns}")
        return CaseInfo(True, "dur_to_td:raises")
    need(TD_MIN_US <= us <= TD_MAX_US, "to_timedelta/out-of-range-not-raised", f"ns={ns}")
    need(r == dt.timedelta(microseconds=us), "to_timedelta/value", f"ns={ns}: {r!r} != {us} us")
    return CaseInfo(ns < 0 or ns % 1000 != 0, "dur_to_td")


def _k_off_td(c) -> CaseInfo:
    from pyoda_time import Offset

    us = c["us"]
    td = dt.timedelta(microseconds=us)
    secs = abs(us) // 10**6 * (1 if us >= 0 else -1)
    inrange = abs(us) <= 18 * 3600 * 10**6
    try:
        o = Offset.from_timedelta(td)
    except ValueError:
        need(not inrange, "Offset.from_timedelta/raised-in-range", f"{us} us")
        return CaseInfo(True, "off_td:raises")
    need(inrange, "Offset.from_timedelta/out-of-range-not-raised", f"{us} us -> {o.seconds}")
    need(o.seconds == secs, "Offset.from_timedelta/value", f"{us} us -> {o.seconds}, expected {secs}")
    if us % 10**6 == 0:
        need(o.to_timedelta() == td, "Offset.to_timedelta/roundtrip")
    return CaseInfo(us % 10**6 != 0 or us < 0, "off_td")


# ---------------------------------------------------------------------------------------------------------------


def task_dates(ctx: Ctx, lo: int, hi: int) -> None:
    nt = 0
    for o in range(lo, hi):
        try:
            check_date_ordinal(o)
        except Mismatch as m:
            ctx.fail("date_ord", {"o": o}, m.sig, m.msg)
        except Exception as e:  # noqa: BLE001
            ctx.fail_exc("date_ord", {"o": o}, e)
        if o <= 366 or o > MAX_ORD - 366 or o % 1461 < 2:
            nt += 1
    ctx.bulk(hi - lo, nt, "date:enumerated")
    ctx.sample("date_ord", {"o": lo}, True)


def task_hyp(ctx: Ctx, shard: int, n: int) -> None:
    s = sub_seed(ctx.seed, "c15", shard)
    ords = st.one_of(st.integers(1, MAX_ORD), ints_biased(1, 800, (365,)), ints_biased(MAX_ORD - 800, MAX_ORD, (365,)), ints_biased(1, MAX_ORD, (365, 1461, 36524, 146097)))
    us_day = ints_biased(0, US_DAY - 1, (10**3, 10**6, 60 * 10**6, 3600 * 10**6))
    offs = st.one_of(ints_biased(-64800, 64800, (60, 900, 3600)), st.sampled_from([0, 64800, -64800, 1, -1]))
    inst = st.one_of(
        ints_biased(INST_MIN, INST_MAX, (1000, SEC, DAY)),
        ints_biased((1 - ORD_EPOCH) * DAY - 3 * DAY, (1 - ORD_EPOCH) * DAY + 400 * DAY, (1000, SEC, DAY)),
        ints_biased((MAX_ORD - ORD_EPOCH) * DAY - 400 * DAY, (MAX_ORD - ORD_EPOCH) * DAY + 3 * DAY, (1000, SEC, DAY)),
        ints_biased(-40000 * DAY, 40000 * DAY, (1000, SEC, DAY)),
    )
    tds = st.one_of(ints_biased(TD_MIN_US, TD_MAX_US, (10**6, US_DAY)), ints_biased(-(10**13), 10**13, (10**6, US_DAY)))
    durs = st.one_of(ints_biased(DUR_MIN, DUR_MAX, (1000, SEC, DAY)), ints_biased(-(10**16), 10**16, (1000, SEC, DAY)), ints_biased(TD_MAX_US * 1000 - 10**7, TD_MAX_US * 1000 + 10**7, (1000,)), ints_biased(TD_MIN_US * 1000 - 10**7, TD_MIN_US * 1000 + 10**7, (1000,)))
    offus = st.one_of(ints_biased(-64800 * 10**6, 64800 * 10**6, (10**6, 60 * 10**6), 0.05), ints_biased(-(10**7), 10**7, (10**6,)))

    def body(o, us, off, i, cd, tdus, dns, ous, rem):
        cid, n_ = cd
        ctx.case("time", {"us": us, "rem": rem})
        ctx.case("ndt", {"o": o, "us": us, "cal": cid})
        ctx.case("adt", {"o": o, "us": us, "off": off})
        ctx.case("adt_inst", {"o": o, "us": us, "off_us": off * 10**6 + (us % 2000003 - 1000001 if us % 3 else 0)})
        ctx.case("ld_to_date", {"cal": cid, "n": n_})
        ctx.case("ldt_to_naive", {"cal": cid, "n": n_, "nod": us * 1000 + rem % 1000})
        c = pyo.cal(cid)
        # the same calendar, projected onto the stdlib range edges
        for edge in (1 - ORD_EPOCH, MAX_ORD - ORD_EPOCH):
            m = edge + (n_ % 5) - 2
            if c._min_days <= m <= c._max_days:
                ctx.case("ld_to_date", {"cal": cid, "n": m})
                ctx.case("ldt_to_naive", {"cal": cid, "n": m, "nod": us * 1000 + rem % 1000})
        ctx.case("inst_to_dt", {"i": i, "off": off, "cal": cid})
        ctx.case("td", {"us": tdus})
        ctx.case("dur_to_td", {"ns": dns})
        ctx.case("off_td", {"us": ous})

    run_hypothesis(
        body,
        dict(o=ords, us=us_day, off=offs, i=inst, cd=pyo.st_cal_day(), tdus=tds, dns=durs, ous=offus, rem=st.integers(0, 999)),
        n,
        s,
    )


def tasks(tier: str, seed: int) -> list[Task]:
    mult = 1 if tier == "quick" else 20
    out = [Task("task_hyp", {"shard": i, "n": 2000 * mult}, f"hyp-{i}") for i in range(12)]
    k = 24
    size = MAX_ORD // k + 1
    out += [Task("task_dates", {"lo": 1 + j * size, "hi": min(MAX_ORD + 1, 1 + (j + 1) * size)}, f"dates-{j}") for j in range(k)]
    return out
