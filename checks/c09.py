"""C09 - date arithmetic and Period.between obey their stated laws in every calendar.

Oracles: the day-number line (plus_days/plus_weeks), a month line built from the calendar's public tables
(plus_months), the documented year rules (plus_years), and algebraic laws for Period.between / normalize.
"""

from __future__ import annotations

from functools import lru_cache

from hypothesis import strategies as st

from harness import pyo
from harness.core import CaseInfo, Ctx, InvalidCase, Mismatch, Task, sub_seed
from harness.gen import ints_biased, run_hypothesis
from ref import calendars as rc

PROPERTY = "C09"
LEVEL = "exploration"
RULE = (
    "Hypothesis-generated (calendar, start day, amount) and (calendar, start, end, unit subset) over all calendar ids; "
    "second date = first + biased delta (same month, same year, +/-1 year, +/-leap cycle, range-leaving); amounts "
    "biased to {1,7,299,300,301,354,366,10^4} multiples; all 15 date-unit subsets, LocalDateTime unit subsets sampled "
    "over all 1023, LocalTime 63, YearMonth 3; per calendar a deterministic panel: all pairs among the month-edge "
    "dates of seed-chosen years (single units + default), month/year arithmetic from those dates, whole-year day "
    "steps from the days around every year boundary of 120 years; PeriodBuilder indexers. Non-trivial: the pair straddles a year / leap-month / intercalary "
    "boundary, |n| >= 300, the unit subset omits the finest unit, or the operation must raise. Distinct = case hash."
)
ASSUMPTIONS = [
    "Badi dates inside Ayyam-i-Ha: only validity and target year/month are asserted for plus_months (documented as undecided)",
    "leaving the calendar must raise ValueError or OverflowError",
]

DAY = pyo.DAY
RAISES = (ValueError, OverflowError)
DATE_UNITS = ["years", "months", "weeks", "days"]
TIME_UNITS = ["hours", "minutes", "seconds", "milliseconds", "ticks", "nanoseconds"]
ALL_UNITS = DATE_UNITS + TIME_UNITS
NS = {"hours": 3600 * 10**9, "minutes": 60 * 10**9, "seconds": 10**9, "milliseconds": 10**6, "ticks": 100, "nanoseconds": 1}


def need(cond: bool, sig: str, msg: str = "") -> None:
    if not cond:
        raise Mismatch(sig, msg)


def eval_case(kind: str, c: dict) -> CaseInfo:
    return globals()["_k_" + kind](c)


def units_flag(names: list[str]):
    from pyoda_time import PeriodUnits

    f = PeriodUnits.NONE
    for n in names:
        f |= getattr(PeriodUnits, n.upper())
    return f


def comps(p) -> dict[str, int]:
    return {u: getattr(p, u) for u in ALL_UNITS}


def in_cal(cal, n: int) -> bool:
    return cal._min_days <= n <= cal._max_days


def expect_date(fn, cid: str, n_exp, what: str):
    """fn() must return the date with day number n_exp in calendar cid; raise iff n_exp is None."""
    cal = pyo.cal(cid)
    try:
        r = fn()
    except RAISES:
        need(n_exp is None, f"{what}/raised-in-range/{cid}", f"expected day {n_exp}")
        return None
    need(n_exp is not None, f"{what}/out-of-range-not-raised/{cid}", f"got {pyo.fmt_date(r)}")
    need(r.calendar is cal, f"{what}/calendar/{cid}")
    got = r._days_since_epoch
    need(got == n_exp, f"{what}/value/{cid}", f"got {pyo.fmt_date(r)} (day {got}), expected day {n_exp} = {pyo.fmt_date(pyo.date_from_day(cid, n_exp))}")
    need(pyo.fields(r) == pyo.fields(pyo.date_from_day(cid, n_exp)), f"{what}/fields/{cid}", f"{pyo.fields(r)}")
    return r


def _k_days(c) -> CaseInfo:
    from pyoda_time import Period

    cid, n, k = c["cal"], c["n"], c["k"]
    cal = pyo.cal(cid)
    if not in_cal(cal, n):
        raise InvalidCase
    d = pyo.date_from_day(cid, n)
    tgt = n + k
    expect_date(lambda: d.plus_days(k), cid, tgt if in_cal(cal, tgt) else None, "plus_days")
    expect_date(lambda: d + Period.from_days(k), cid, tgt if in_cal(cal, tgt) else None, "add-period-days")
    expect_date(lambda: d - Period.from_days(-k), cid, tgt if in_cal(cal, tgt) else None, "sub-period-days")
    w = k // 7 if abs(k) > 2000 else k
    tw = n + 7 * w
    expect_date(lambda: d.plus_weeks(w), cid, tw if in_cal(cal, tw) else None, "plus_weeks")
    need(pyo.fields(d) == pyo.fields(pyo.date_from_day(cid, n)), "receiver-mutated")
    if in_cal(cal, tgt):
        need(Period.days_between(d, pyo.date_from_day(cid, tgt)) == k, f"days_between/{cid}", f"{n} -> {tgt}")
    e = pyo.date_from_day(cid, tgt) if in_cal(cal, tgt) else None
    nt = abs(k) >= 300 or e is None or (e is not None and e.year != d.year) or (e is not None and e.month != d.month)
    return CaseInfo(nt, "days:" + ("out" if e is None else ("fast" if abs(k) < 300 else "slow")))


@lru_cache(maxsize=200_000)
def month_order(cid: str, y: int) -> tuple[int, ...]:
    from pyoda_time import LocalDate

    cal = pyo.cal(cid)
    miy = cal.get_months_in_year(y)
    return tuple(sorted(range(1, miy + 1), key=lambda m: LocalDate(y, m, 1, cal)._days_since_epoch))


def month_line_target(cid: str, y: int, m: int, k: int):
    """(year, month) k months after (y, m) in chronological month order, or None if it leaves [min_year, max_year]."""
    cal = pyo.cal(cid)
    order = month_order(cid, y)
    idx = order.index(m) + k
    while idx >= len(order):
        idx -= len(order)
        y += 1
        if y > cal.max_year:
            return None
        order = month_order(cid, y)
    while idx < 0:
        y -= 1
        if y < cal.min_year:
            return None
        order = month_order(cid, y)
        idx += len(order)
    return y, order[idx]


def _k_months(c) -> CaseInfo:
    from pyoda_time import LocalDate, Period

    cid, n, k = c["cal"], c["n"], c["k"]
    cal = pyo.cal(cid)
    if not in_cal(cal, n) or abs(k) > 40000:
        raise InvalidCase
    d = pyo.date_from_day(cid, n)
    y, m, dd = pyo.fields(d)
    ayyam = cid == "Badi" and m == 18 and dd > 19
    tgt = month_line_target(cid, y, m, k)
    try:
        r = d.plus_months(k)
    except RAISES:
        if ayyam:
            return CaseInfo(True, "months:ayyam-raises")
        need(tgt is None, f"plus_months/raised-in-range/{cid}", f"{pyo.fmt_date(d)} + {k} months, expected {tgt}")
        return CaseInfo(True, "months:out")
    # always a constructible date
    try:
        chk = LocalDate(r.year, r.month, r.day, cal)
    except ValueError as e:
        raise Mismatch(f"plus_months/invalid-date/{cid}", f"{pyo.fmt_date(d)} + {k} -> {pyo.fields(r)}: {e}") from None
    need(chk == r and in_cal(cal, r._days_since_epoch), f"plus_months/not-a-date/{cid}")
    if ayyam:
        return CaseInfo(True, "months:ayyam")
    need(tgt is not None, f"plus_months/out-of-range-not-raised/{cid}", f"{pyo.fmt_date(d)} + {k} -> {pyo.fmt_date(r)}")
    ty, tm = tgt
    exp_day = min(dd, cal.get_days_in_month(ty, tm))
    if cid == "Badi" and tm == 18:
        exp_day = min(dd, 19)  # a regular day of month never moves into Ayyam-i-Ha
    need((r.year, r.month) == (ty, tm), f"plus_months/target-month/{cid}", f"{pyo.fmt_date(d)} + {k} -> {pyo.fmt_date(r)}, expected {ty}-{tm}")
    need(r.day == exp_day, f"plus_months/day/{cid}", f"{pyo.fmt_date(d)} + {k} -> {pyo.fmt_date(r)}, expected day {exp_day}")
    r2 = d + Period.from_months(k)
    need(r2 == r, f"add-period-months/{cid}")
    return CaseInfo(ty != y or exp_day != dd or abs(k) >= 12, "months:clamped" if exp_day != dd else "months")


HEB = rc.Hebrew("Scriptural")


def expected_plus_years(cid: str, y: int, m: int, d: int, ty: int) -> tuple[int, int, int]:
    cal = pyo.cal(cid)
    if cid.startswith("Hebrew"):
        civil = cid == "Hebrew Civil"
        sm = HEB.civil_to_scriptural(y, m) if civil else m
        leap_t, leap_c = HEB.is_leap(ty), HEB.is_leap(y)
        if sm == 13 and not leap_t:
            sm = 12
        elif sm == 12 and leap_t and not leap_c:
            sm = 13
        if d == 30 and sm in (8, 9, 12) and HEB._scriptural_len(ty, sm) != 30:
            d = 1
            sm = 1 if sm + 1 == 13 else sm + 1
        return ty, (HEB.scriptural_to_civil(ty, sm) if civil else sm), d
    if cid == "Badi" and m == 18 and d > 19:
        return ty, m, min(d, cal.get_days_in_month(ty, 18))
    return ty, m, min(d, cal.get_days_in_month(ty, m))


def _k_years(c) -> CaseInfo:
    from pyoda_time import LocalDate, Period

    cid, n, k = c["cal"], c["n"], c["k"]
    cal = pyo.cal(cid)
    if not in_cal(cal, n):
        raise InvalidCase
    d = pyo.date_from_day(cid, n)
    y, m, dd = pyo.fields(d)
    ty = y + k
    ok = cal.min_year <= ty <= cal.max_year
    try:
        r = d.plus_years(k)
    except RAISES:
        need(not ok, f"plus_years/raised-in-range/{cid}", f"{pyo.fmt_date(d)} + {k} years")
        return CaseInfo(True, "years:out")
    need(ok, f"plus_years/out-of-range-not-raised/{cid}", f"{pyo.fmt_date(d)} + {k} -> {pyo.fmt_date(r)}")
    try:
        chk = LocalDate(r.year, r.month, r.day, cal)
    except ValueError as e:
        raise Mismatch(f"plus_years/invalid-date/{cid}", f"{pyo.fmt_date(d)} + {k} -> {pyo.fields(r)}: {e}") from None
    need(chk == r, f"plus_years/not-a-date/{cid}")
    exp = expected_plus_years(cid, y, m, dd, ty)
    need(pyo.fields(r) == exp, f"plus_years/value/{cid}", f"{pyo.fmt_date(d)} + {k} years -> {pyo.fmt_date(r)}, expected {exp}")
    need(d + Period.from_years(k) == r, f"add-period-years/{cid}")
    return CaseInfo(exp[1:] != (m, dd) or abs(k) > 100, "years:adjusted" if exp[1:] != (m, dd) else "years")


def check_signs(p, sign: int, what: str) -> None:
    for u, v in comps(p).items():
        need(v == 0 or (v > 0) == (sign > 0), f"{what}/mixed-signs", f"{comps(p)} sign {sign}")


def check_units(p, units: list[str], what: str) -> None:
    for u, v in comps(p).items():
        need(v == 0 or u in units, f"{what}/unrequested-unit", f"{u}={v} not in {units}")


def _k_between_date(c) -> CaseInfo:
    from pyoda_time import Period, PeriodBuilder

    cid, a, b, units = c["cal"], c["a"], c["b"], c["units"]
    cal = pyo.cal(cid)
    if not (in_cal(cal, a) and in_cal(cal, b)) or not units or any(u not in DATE_UNITS for u in units):
        raise InvalidCase
    s, e = pyo.date_from_day(cid, a), pyo.date_from_day(cid, b)
    p = Period.between(s, e, units_flag(units))
    sign = (b > a) - (b < a)
    w = f"between-date/{cid}"
    check_units(p, units, w)
    check_signs(p, sign, w)
    if a == b:
        need(all(v == 0 for v in comps(p).values()), f"{w}/equal-not-zero")
    try:
        r = s + p
    except RAISES as ex:
        raise Mismatch(f"{w}/start-plus-period-raises", f"{pyo.fmt_date(s)} + {comps(p)}: {ex}") from None
    rn = r._days_since_epoch
    need(min(a, b) <= rn <= max(a, b), f"{w}/not-between", f"{pyo.fmt_date(s)}..{pyo.fmt_date(e)} units {units}: {comps(p)} -> {pyo.fmt_date(r)}")
    if "days" in units:
        need(rn == b, f"{w}/inexact-with-days", f"{pyo.fmt_date(s)}..{pyo.fmt_date(e)} units {units}: {comps(p)} -> {pyo.fmt_date(r)}")
    if len(units) == 1 and sign != 0:
        u = units[0]
        nval = getattr(p, u)
        more = PeriodBuilder(**{u: nval + sign}).build()
        try:
            r2 = s + more
        except RAISES:
            pass
        else:
            r2n = r2._days_since_epoch
            need((r2n > b) if sign > 0 else (r2n < b), f"{w}/single-unit-not-maximal", f"{pyo.fmt_date(s)}..{pyo.fmt_date(e)} {u}={nval}; {u}={nval + sign} gives {pyo.fmt_date(r2)}")
    if units == ["years", "months", "days"]:
        need(Period.between(s, e) == p and (e - s) == p and e.minus(s) == p, f"{w}/default-units")
    straddle = s.year != e.year or s.month != e.month
    return CaseInfo(straddle or "days" not in units, f"between_date:{len(units)}")


def _ldt(cid, n, nod):
    return pyo.ldt_from(cid, n, nod)


def _k_between_ldt(c) -> CaseInfo:
    from pyoda_time import Period, PeriodBuilder

    cid, a, na, b, nb, units = c["cal"], c["a"], c["na"], c["b"], c["nb"], c["units"]
    cal = pyo.cal(cid)
    if not (in_cal(cal, a) and in_cal(cal, b) and 0 <= na < DAY and 0 <= nb < DAY) or not units or any(u not in ALL_UNITS for u in units):
        raise InvalidCase
    s, e = _ldt(cid, a, na), _ldt(cid, b, nb)
    ts, te = a * DAY + na, b * DAY + nb
    p = Period.between(s, e, units_flag(units))
    sign = (te > ts) - (te < ts)
    w = f"between-ldt/{cid}"
    check_units(p, units, w)
    check_signs(p, sign, w)
    try:
        r = s + p
    except RAISES as ex:
        raise Mismatch(f"{w}/start-plus-period-raises", f"{comps(p)}: {ex}") from None
    tr = pyo.ldt_total(r)
    need(min(ts, te) <= tr <= max(ts, te), f"{w}/not-between", f"{pyo.fmt_date(s.date)}+{na} .. {pyo.fmt_date(e.date)}+{nb} units {units}: {comps(p)} -> total {tr}")
    exact = "nanoseconds" in units or ("ticks" in units and (te - ts) % 100 == 0)
    if exact:
        need(tr == te, f"{w}/inexact-with-finest-unit", f"units {units}: {comps(p)} off by {te - tr} ns")
    if len(units) == 1 and sign != 0:
        u = units[0]
        nval = getattr(p, u)
        try:
            r2 = s + PeriodBuilder(**{u: nval + sign}).build()
        except RAISES:
            pass
        else:
            t2 = pyo.ldt_total(r2)
            need((t2 > te) if sign > 0 else (t2 < te), f"{w}/single-unit-not-maximal", f"{u}={nval}; one more gives total {t2}, end {te}")
    if set(units) == set(ALL_UNITS) - {"weeks"}:
        need(Period.between(s, e) == p and (e - s) == p, f"{w}/default-units")
    return CaseInfo(not exact or a != b, f"between_ldt:{len(units)}")


def _k_between_time(c) -> CaseInfo:
    from pyoda_time import LocalTime, Period

    na, nb, units = c["na"], c["nb"], c["units"]
    if not (0 <= na < DAY and 0 <= nb < DAY) or not units or any(u not in TIME_UNITS for u in units):
        raise InvalidCase
    s, e = LocalTime.from_nanoseconds_since_midnight(na), LocalTime.from_nanoseconds_since_midnight(nb)
    p = Period.between(s, e, units_flag(units))
    sign = (nb > na) - (nb < na)
    check_units(p, units, "between-time")
    check_signs(p, sign, "between-time")
    total = sum(getattr(p, u) * NS[u] for u in TIME_UNITS)
    need(min(0, nb - na) <= total <= max(0, nb - na), "between-time/not-between", f"{comps(p)}")
    rem = abs((nb - na) - total)
    finest = min(NS[u] for u in units)
    need(rem < finest, "between-time/not-maximal", f"remainder {rem} >= finest unit {finest}: {comps(p)}")
    if "nanoseconds" in units or ("ticks" in units and (nb - na) % 100 == 0):
        need(total == nb - na, "between-time/inexact")
        need((s + p).nanosecond_of_day == nb, "between-time/start-plus-period")
    if len(units) == 1:
        n_ = getattr(p, units[0])
        need(n_ == (abs(nb - na) // NS[units[0]]) * sign, "between-time/single-unit", f"{units[0]}={n_}")
    if len(units) == 6:
        need(Period.between(s, e) == p and (e - s) == p, "between-time/default-units")
    return CaseInfo(rem != 0 or sign < 0, f"between_time:{len(units)}")


def _k_between_ym(c) -> CaseInfo:
    from pyoda_time import Period, YearMonth

    cid, y1, m1, y2, m2, units = c["cal"], c["y1"], c["m1"], c["y2"], c["m2"], c["units"]
    cal = pyo.cal(cid)
    for y, m in ((y1, m1), (y2, m2)):
        if not cal.min_year <= y <= cal.max_year or not 1 <= m <= cal.get_months_in_year(y):
            raise InvalidCase
    if not units or any(u not in ("years", "months") for u in units):
        raise InvalidCase
    s, e = YearMonth(year=y1, month=m1, calendar=cal), YearMonth(year=y2, month=m2, calendar=cal)
    p = Period.between(s, e, units_flag(units))
    w = f"between-ym/{cid}"
    check_units(p, units, w)
    # month line distance
    o1, o2 = month_order(cid, y1), month_order(cid, y2)
    pos1 = (y1, o1.index(m1))
    pos2 = (y2, o2.index(m2))
    sign = (pos2 > pos1) - (pos2 < pos1)
    check_signs(p, sign, w)
    sd = s.on_day_of_month(1)
    r = sd + p
    ed = e.on_day_of_month(1)
    lo, hi = sorted((sd._days_since_epoch, ed._days_since_epoch))
    need(lo <= r._days_since_epoch <= hi, f"{w}/not-between", f"{(y1, m1)}..{(y2, m2)} {units}: {comps(p)}")
    if "months" in units:
        need(pyo.fields(r)[:2] == (y2, m2), f"{w}/inexact-with-months", f"{(y1, m1)}..{(y2, m2)} {units}: {comps(p)} -> {pyo.fields(r)}")
    return CaseInfo(y1 != y2, f"between_ym:{'+'.join(units)}")


def _k_period(c) -> CaseInfo:
    from pyoda_time import Duration, PeriodBuilder

    f = c["f"]
    p = PeriodBuilder(**f).build()
    need(comps(p) == {u: f.get(u, 0) for u in ALL_UNITS}, "builder/build")
    need(p.to_builder().build() == p and hash(p.to_builder().build()) == hash(p), "to_builder-roundtrip")
    # the builder's unit indexer reads and writes the same ten fields, one unit at a time
    b = p.to_builder()
    b2 = PeriodBuilder()
    for u in ALL_UNITS:
        flag = units_flag([u])
        need(b[flag] == f.get(u, 0), f"builder/getitem/{u}", f"{b[flag]} != {f.get(u, 0)}")
        b2[flag] = f.get(u, 0)
    need(b2.build() == p, "builder/setitem", f"{comps(b2.build())} != {comps(p)}")
    try:
        b[units_flag(["days", "hours"])]
    except ValueError:
        pass
    else:
        raise Mismatch("builder/getitem-accepts-combined-units", "days|hours")
    # static and operator spellings of period arithmetic agree with component-wise arithmetic
    from pyoda_time import Period

    q = PeriodBuilder(**{u: (v * 3 + 1) for u, v in f.items()}).build()
    for nm, r, sign_ in (("add", p + q, 1), ("Period.add", Period.add(p, q), 1), ("sub", p - q, -1), ("Period.subtract", Period.subtract(p, q), -1)):
        need(comps(r) == {u: f.get(u, 0) + sign_ * comps(q)[u] for u in ALL_UNITS}, f"period/{nm}", f"{comps(r)}")
    fixed = sum(f.get(u, 0) * NS[u] for u in TIME_UNITS) + f.get("days", 0) * DAY + f.get("weeks", 0) * 7 * DAY
    n = p.normalize()
    cn = comps(n)
    need(cn["years"] == f.get("years", 0) and cn["months"] == f.get("months", 0), "normalize/years-months-changed")
    need(cn["weeks"] == 0 and cn["ticks"] == 0, "normalize/weeks-or-ticks-nonzero", f"{cn}")
    tot = sum(cn[u] * NS[u] for u in TIME_UNITS) + cn["days"] * DAY
    need(tot == fixed, "normalize/total-changed", f"{fixed} -> {tot}")
    sg = (fixed > 0) - (fixed < 0)
    for u in ("days", "hours", "minutes", "seconds", "milliseconds", "nanoseconds"):
        need(cn[u] == 0 or (cn[u] > 0) == (sg > 0), "normalize/mixed-signs", f"{cn}")
    need(abs(cn["hours"]) < 24 and abs(cn["minutes"]) < 60 and abs(cn["seconds"]) < 60 and abs(cn["milliseconds"]) < 1000 and abs(cn["nanoseconds"]) < 10**6, "normalize/range", f"{cn}")
    need(n.normalize() == n, "normalize/not-idempotent")
    has_ym = f.get("years", 0) != 0 or f.get("months", 0) != 0
    try:
        d = p.to_duration()
    except (RuntimeError, ValueError, OverflowError) as ex:
        dur_ok = -(1 << 30) * DAY <= fixed <= (1 << 30) * DAY - 1
        need(has_ym or not dur_ok, "to_duration/raised", f"{f}: {ex}")
    else:
        need(not has_ym, "to_duration/years-months-not-rejected")
        need(isinstance(d, Duration) and d.to_nanoseconds() == fixed, "to_duration/value", f"{d.to_nanoseconds()} != {fixed}")
    need(p.has_date_component == any(f.get(u, 0) for u in DATE_UNITS) and p.has_time_component == any(f.get(u, 0) for u in TIME_UNITS), "has_components")
    signs = {(v > 0) - (v < 0) for v in f.values() if v}
    return CaseInfo(len(signs) > 1 or has_ym, "period")


# ---------------------------------------------------------------------------------------------------------------
AMOUNTS = (1, 7, 299, 300, 301, 354, 366, 10**4)


def task_hyp(ctx: Ctx, shard: int, n: int) -> None:
    s = sub_seed(ctx.seed, "c09", shard)
    amt = st.one_of(st.integers(-40, 40), ints_biased(-4 * 10**6, 4 * 10**6, AMOUNTS), st.sampled_from([299, 300, 301, -299, -300, -301, 365, 366, -365, -366, 354, 355, 383, 385]))
    delta = st.one_of(st.integers(-40, 40), st.integers(-800, 800), ints_biased(-60000, 60000, (354, 365, 366, 1461, 10631)), ints_biased(-8 * 10**6, 8 * 10**6, (365, 146097)))
    date_subsets = st.lists(st.sampled_from(DATE_UNITS), min_size=1, max_size=4, unique=True).map(lambda l: [u for u in DATE_UNITS if u in l])
    all_subsets = st.integers(1, 1023).map(lambda mask: [u for i, u in enumerate(ALL_UNITS) if mask >> i & 1])
    time_subsets = st.integers(1, 63).map(lambda mask: [u for i, u in enumerate(TIME_UNITS) if mask >> i & 1])
    ym_subsets = st.sampled_from([["years"], ["months"], ["years", "months"]])
    nod = pyo.st_nod()
    small = st.one_of(st.integers(-3, 3), st.integers(-100, 100), ints_biased(-(10**7), 10**7, (24, 60, 1000, 86400)))
    big = st.one_of(small, ints_biased(-(10**16), 10**16, (10**9, DAY)))
    pf = st.fixed_dictionaries({}, optional={"years": small, "months": small, "weeks": small, "days": small, "hours": small, "minutes": small, "seconds": big, "milliseconds": big, "ticks": big, "nanoseconds": big})

    def body(cd, k, dl, du, au, tu, yu, na, nb, f, mk, yk, single):
        cid, a = cd
        cal = pyo.cal(cid)
        b = max(cal._min_days, min(cal._max_days, a + dl))
        ctx.case("days", {"cal": cid, "n": a, "k": k})
        ctx.case("days", {"cal": cid, "n": a, "k": dl})
        ctx.case("months", {"cal": cid, "n": a, "k": mk})
        ctx.case("years", {"cal": cid, "n": a, "k": yk})
        if single:
            du = [du[0]]
            au = [au[single % len(au)]]
        ctx.case("between_date", {"cal": cid, "a": a, "b": b, "units": du})
        ctx.case("between_date", {"cal": cid, "a": b, "b": a, "units": du})
        ctx.case("between_ldt", {"cal": cid, "a": a, "na": na, "b": b, "nb": nb, "units": au})
        ctx.case("between_ldt", {"cal": cid, "a": b, "na": nb, "b": a, "nb": na, "units": au})
        ctx.case("between_time", {"na": na, "nb": nb, "units": tu})
        da, db = pyo.date_from_day(cid, a), pyo.date_from_day(cid, b)
        ctx.case("between_ym", {"cal": cid, "y1": da.year, "m1": da.month, "y2": db.year, "m2": db.month, "units": yu})
        ctx.case("period", {"f": f})

    mk = st.one_of(st.integers(-30, 30), ints_biased(-3000, 3000, (12, 13, 19, 235)), st.sampled_from([10**5, -(10**5)]).map(lambda v: v // 4))
    yk = st.one_of(st.integers(-12, 12), ints_biased(-20000, 20000, (4, 19, 33, 100)))
    run_hypothesis(
        body,
        dict(cd=pyo.st_cal_day(), k=amt, dl=delta, du=date_subsets, au=all_subsets, tu=time_subsets, yu=ym_subsets, na=nod, nb=nod, f=pf, mk=mk, yk=yk, single=st.integers(0, 5)),
        n,
        s,
    )


def task_small_exhaustive(ctx: Ctx, cal: str, lo: int, hi: int) -> None:
    """thorough tier: every date of a small calendar range x n in [-40, 40] for months and years."""
    for n in range(lo, hi + 1):
        for k in range(-40, 41):
            ctx.case("months", {"cal": cal, "n": n, "k": k})
            if abs(k) <= 8:
                ctx.case("years", {"cal": cal, "n": n, "k": k})


def task_between_panel(ctx: Ctx, cal: str, years: list[int]) -> None:
    """Every ordered pair among the month-edge dates (days 1, 2, 19-21, last-1, last of every month) of the given
    years and the year after each: Period.between with each single date unit and with the default units."""
    c = pyo.cal(cal)
    from pyoda_time import LocalDate

    for y0 in years:
        days = []
        for y in (y0, y0 + 1):
            if not c.min_year <= y <= c.max_year:
                continue
            for m in range(1, c.get_months_in_year(y) + 1):
                dim = c.get_days_in_month(y, m)
                for d in sorted({1, 2, 19, 20, 21, dim - 1, dim}):
                    if 1 <= d <= dim:
                        try:
                            days.append(LocalDate(y, m, d, c)._days_since_epoch)
                        except (ValueError, OverflowError):
                            pass
        days = sorted(set(days))
        # month / year arithmetic from every month-edge date (day clamping, leap months, short last months) of these
        # two years and the two after them (so a 4-year leap cycle is always covered)
        more = []
        for y in (y0 + 2, y0 + 3):
            if c.min_year <= y <= c.max_year:
                for m in range(1, c.get_months_in_year(y) + 1):
                    dim = c.get_days_in_month(y, m)
                    for d in (1, dim - 1, dim):
                        try:
                            more.append(LocalDate(y, m, d, c)._days_since_epoch)
                        except (ValueError, OverflowError):
                            pass
        for n in days + more:
            for k in range(-14, 15):
                ctx.case("months", {"cal": cal, "n": n, "k": k})
                if abs(k) <= 5:
                    ctx.case("years", {"cal": cal, "n": n, "k": k})
        stride = max(1, len(days) // 40)  # at most ~40 x len(days) pairs per year pair
        for i, a in enumerate(days):
            for b in days[i % stride :: stride]:
                for units in (["months"], ["years"], ["weeks"], ["years", "months", "days"]):
                    ctx.case("between_date", {"cal": cal, "a": a, "b": b, "units": units})
                if ctx.should_abort():
                    return


def task_year_span(ctx: Ctx, cal: str, years: int) -> None:
    """plus_days by about one whole year from the days around a year boundary (a step that can cross two year
    boundaries when the year in between is a short one: 353-day Hebrew years, 354-day lunar years), both directions."""
    from pyoda_time import LocalDate

    c = pyo.cal(cal)
    ny = c.max_year - c.min_year + 1
    y0 = c.min_year + sub_seed(ctx.seed, "c09span", cal) % max(1, ny - years)
    ys = sorted(set(range(y0, min(c.max_year - 1, y0 + years))) | {c.min_year + 1, c.max_year - 1})
    for y in ys:
        if not c.min_year < y < c.max_year:
            continue
        d = LocalDate(y, 1, 1, c)
        start = d._days_since_epoch - (d.day_of_year - 1)
        length = c.get_days_in_year(y)
        for n in (start - 1, start, start + 1):
            for k in (length - 1, length, length + 1, length + 2):
                ctx.case("days", {"cal": cal, "n": n, "k": k})
        for n in (start + length - 1, start + length, start + length + 1):
            for k in (length - 1, length, length + 1, length + 2):
                ctx.case("days", {"cal": cal, "n": n, "k": -k})


def tasks(tier: str, seed: int) -> list[Task]:
    out = [Task("task_hyp", {"shard": i, "n": 1100 if tier == "quick" else 22000}, f"hyp-{i}") for i in range(16)]
    for cid in pyo.cal_ids():
        c = pyo.cal(cid)
        ny = c.max_year - c.min_year
        # a leap/non-leap mix: a seed-chosen year and the year(s) after it; thorough: 12 seed-chosen years
        ys = sorted({c.min_year + sub_seed(seed, "c09p", cid, k) % ny for k in range(1 if tier == "quick" else 12)})
        out.append(Task("task_between_panel", {"cal": cid, "years": ys}, f"between-panel-{cid}"))
        out.append(Task("task_year_span", {"cal": cid, "years": 120 if tier == "quick" else 2000}, f"year-span-{cid}"))
    if tier == "thorough":
        for cid in ("Um Al Qura", "Badi", "Hebrew Civil", "Hebrew Scriptural"):
            c = pyo.cal(cid)
            lo = c._min_days
            hi = min(c._max_days, lo + 70000) if cid.startswith("Hebrew") or cid == "Badi" else c._max_days
            if cid.startswith("Hebrew"):
                from pyoda_time import LocalDate

                lo = LocalDate(5700, 1, 1, c)._days_since_epoch
                hi = lo + 40000
            parts = 8
            sz = (hi - lo) // parts + 1
            for p in range(parts):
                out.append(Task("task_small_exhaustive", {"cal": cid, "lo": lo + p * sz, "hi": min(hi, lo + (p + 1) * sz - 1)}, f"small-{cid}-{p}"))
    return out
