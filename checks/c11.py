"""C11 - offset and zoned date-times keep instant, local time, offset and calendar in step.

Model: instant i (int ns since the Unix epoch), offset o (int s), local total = i + o*1e9, calendar = id.
"""

from __future__ import annotations

from hypothesis import strategies as st

from harness import pyo
from harness import zones as Z
from harness.core import CaseInfo, Ctx, InvalidCase, Mismatch, Task, sub_seed
from harness.gen import ints_biased, run_hypothesis

PROPERTY = "C11"
LEVEL = "exploration"
RULE = (
    "Hypothesis-generated (instant, offset, calendar, second offset, second calendar, duration, zone) tuples: "
    "instants biased to day boundaries and to within 18 h of the ends of the Instant range, offsets over all seconds "
    "in +/-18 h (edge biased, pairs more than 24 h apart), all calendar ids, zones sampled from the provider plus "
    "fixed zones; every field accessor of the compound values equals that of their local date-time; results must be "
    "in normal form. Oracle: int model. Non-trivial: local day != UTC day, a double day carry on with_offset, a non-ISO "
    "calendar, or a value within 18 h of a range end / a raising case. Distinct = (kind, case) hash."
)
ASSUMPTIONS = ["zone.get_utc_offset(instant) is taken as given here (C04-C06 decide it)"]

DAY = pyo.DAY
SEC = 10**9
INST_MIN = -4371222 * DAY
INST_MAX = (2932896 + 1) * DAY - 1
OFF_MAX = 18 * 3600
RAISES = (ValueError, OverflowError)

ZONE_IDS = [
    "UTC", "Europe/London", "America/New_York", "Pacific/Apia", "Pacific/Kiritimati", "Asia/Kathmandu",
    "Australia/Lord_Howe", "Africa/Monrovia", "America/St_Johns", "Asia/Tehran", "Europe/Dublin",
    "Antarctica/Troll", "Etc/GMT+12", "Etc/GMT-14", "America/Sao_Paulo", "Asia/Kolkata", "Africa/Casablanca",
    "America/Caracas", "Europe/Moscow", "Pacific/Chatham",
]


def need(cond: bool, sig: str, msg: str = "") -> None:
    if not cond:
        raise Mismatch(sig, msg)


def eval_case(kind: str, c: dict) -> CaseInfo:
    return globals()["_k_" + kind](c)


def inst(i: int):
    from pyoda_time import Instant

    return Instant._ctor(days=i // DAY, nano_of_day=i % DAY)


def inst_ns(x) -> int:
    return Z.ns(x)  # also asserts the normal form of the day / nanosecond-of-day split


def zone_for(zid: str):
    from pyoda_time import DateTimeZone, DateTimeZoneProviders, Offset

    if zid.startswith("fixed:"):
        return DateTimeZone.for_offset(Offset.from_seconds(int(zid[6:])))
    return DateTimeZoneProviders.tzdb[zid]


def in_cal(cid: str, total: int) -> bool:
    c = pyo.cal(cid)
    return c._min_days <= total // DAY <= c._max_days


ACCESSORS = (
    "year", "month", "day", "year_of_era", "era", "day_of_year", "day_of_week", "hour", "minute", "second", "millisecond",
    "tick_of_second", "tick_of_day", "nanosecond_of_second", "nanosecond_of_day", "clock_hour_of_half_day", "calendar",
)  # fmt: skip


def accessor_parity(obj, ldt, what: str) -> None:
    """Every field accessor the compound value offers reads the same as on its own local date-time (whose accessors
    are C01's and C10's subject)."""
    for nm in ACCESSORS:
        if hasattr(type(obj), nm) and hasattr(type(ldt), nm):
            a, b = getattr(obj, nm), getattr(ldt, nm)
            need(a == b, f"{what}/accessor/{nm}", f"{a!r} != {b!r}")


def check_odt(odt, i: int, o: int, cid: str, what: str) -> None:
    from pyoda_time import OffsetDateTime

    need(isinstance(odt, OffsetDateTime), f"{what}/type")
    total = i + o * SEC
    got_i = inst_ns(odt.to_instant())
    need(got_i == i, f"{what}/instant", f"expected {i} got {got_i} (delta {got_i - i})")
    need(odt.offset.seconds == o, f"{what}/offset", f"expected {o} got {odt.offset.seconds}")
    need(odt.calendar is pyo.cal(cid), f"{what}/calendar", f"expected {cid} got {odt.calendar.id}")
    lt = pyo.ldt_total(odt.local_date_time)
    need(lt == total, f"{what}/local", f"expected local {total} got {lt}")
    need(odt.nanosecond_of_day == total % DAY, f"{what}/nanosecond_of_day")
    need(pyo.fields(odt.date) == pyo.fields(pyo.date_from_day(cid, total // DAY)), f"{what}/date-fields")
    need((odt.year, odt.month, odt.day) == pyo.fields(odt.date), f"{what}/ymd-accessors")
    accessor_parity(odt, odt.local_date_time, what)
    need(odt.time_of_day == odt.local_date_time.time_of_day and odt.date == odt.local_date_time.date, f"{what}/parts")


def expect_odt(fn, i: int, o: int, cid: str, what: str) -> bool:
    ok = INST_MIN <= i <= INST_MAX and in_cal(cid, i + o * SEC)
    try:
        r = fn()
    except RAISES:
        need(not ok, f"{what}/raised-in-range", f"i={i} o={o} cal={cid}")
        return False
    need(ok, f"{what}/out-of-range-not-raised", f"i={i} o={o} cal={cid}")
    check_odt(r, i, o, cid, what)
    return True


def _k_odt(c) -> CaseInfo:
    from pyoda_time import Duration, LocalTime, Offset, OffsetDate, OffsetDateTime, OffsetTime

    i, o, cid, o2, cid2, d, i2 = c["i"], c["o"], c["cal"], c["o2"], c["cal2"], c["d"], c["i2"]
    if not (INST_MIN <= i <= INST_MAX and INST_MIN <= i2 <= INST_MAX and abs(o) <= OFF_MAX and abs(o2) <= OFF_MAX):
        raise InvalidCase
    cal, cal2 = pyo.cal(cid), pyo.cal(cid2)
    I, O, O2 = inst(i), Offset.from_seconds(o), Offset.from_seconds(o2)
    nt = (i + o * SEC) // DAY != i // DAY or cid != "ISO" or i < INST_MIN + 18 * 3600 * SEC or i > INST_MAX - 18 * 3600 * SEC
    if not expect_odt(lambda: I.with_offset(O, cal), i, o, cid, "with_offset(instant)"):
        return CaseInfo(True, "odt:construction-raises")
    a = I.with_offset(O, cal)
    if cid == "ISO":
        # the routes that take no calendar argument (they use the ISO day-number fast paths): same value
        a0 = I.with_offset(O)
        check_odt(a0, i, o, "ISO", "with_offset(instant) [no calendar]")
        need(a0 == a, "with_offset/no-calendar-differs")
        u = I.in_utc()
        need(inst_ns(u.to_instant()) == i and u.offset.seconds == 0 and pyo.ldt_total(u.local_date_time) == i and u.calendar is cal, "in_utc", f"{i}")
        need(pyo.fields(u.date) == pyo.fields(pyo.date_from_day("ISO", i // DAY)), "in_utc/date-fields", f"{i}: {pyo.fmt_date(u.date)}")
    # public constructor from the local date-time
    b = OffsetDateTime(a.local_date_time, O)
    check_odt(b, i, o, cid, "ctor(ldt,offset)")
    need(a == b and hash(a) == hash(b), "ctor-equals-with_offset")
    # change the offset: same instant, same calendar
    double = abs((i % DAY) + o2 * SEC - 0) >= 0 and ((i + o * SEC) // DAY - (i + o2 * SEC) // DAY) in (2, -2)
    expect_odt(lambda: a.with_offset(O2), i, o2, cid, "with_offset(odt)")
    # change the calendar: same instant, offset, day number
    expect_odt(lambda: a.with_calendar(cal2), i, o, cid2, "with_calendar")
    # adjusters keep the other parts
    total = i + o * SEC
    other_day = pyo.resolve_cal_day(cid, abs(i2), abs(o2), abs(d) % 400, 0)
    r = a.with_date_adjuster(lambda _d: pyo.date_from_day(cid, other_day))
    need(
        r.date._days_since_epoch == other_day and r.nanosecond_of_day == total % DAY and r.offset.seconds == o and r.calendar is cal,
        "with_date_adjuster",
        f"day {r.date._days_since_epoch} nod {r.nanosecond_of_day} off {r.offset.seconds}",
    )
    nt2 = abs(i2) % DAY
    r = a.with_time_adjuster(lambda _t: LocalTime.from_nanoseconds_since_midnight(nt2))
    need(
        r.date._days_since_epoch == total // DAY and r.nanosecond_of_day == nt2 and r.offset.seconds == o and r.calendar is cal,
        "with_time_adjuster",
        f"day {r.date._days_since_epoch} nod {r.nanosecond_of_day} off {r.offset.seconds}",
    )
    # arithmetic with durations: instant moves by exactly d; offset and calendar retained
    D = Duration.from_nanoseconds(d)
    ok_add = expect_odt(lambda: a + D, i + d, o, cid, "add-duration")
    expect_odt(lambda: a.plus(D), i + d, o, cid, "plus")
    expect_odt(lambda: OffsetDateTime.add(a, D), i + d, o, cid, "add()")
    ok_sub = expect_odt(lambda: a - D, i - d, o, cid, "sub-duration")
    expect_odt(lambda: a.minus(D), i - d, o, cid, "minus")
    expect_odt(lambda: OffsetDateTime.subtract(a, D), i - d, o, cid, "subtract()")
    k = d % 2001 - 1000
    for unit, u in (("hours", 3600 * SEC), ("minutes", 60 * SEC), ("seconds", SEC), ("milliseconds", 10**6), ("ticks", 100), ("nanoseconds", 1)):
        expect_odt(lambda: getattr(a, "plus_" + unit)(k), i + k * u, o, cid, f"plus_{unit}")
    # difference of two values = difference of their instants whatever offsets/calendars
    if in_cal(cid2, i2 + o2 * SEC):
        other = inst(i2).with_offset(O2, cal2)
        need((a - other).to_nanoseconds() == i - i2, "sub-odt", f"{(a - other).to_nanoseconds()} != {i - i2}")
        need(a.minus(other).to_nanoseconds() == i - i2 and OffsetDateTime.subtract(a, other).to_nanoseconds() == i - i2, "minus-odt")
    # projections and recombination
    od, ot = a.to_offset_date(), a.to_offset_time()
    need(od.date == a.date and od.offset.seconds == o and od.calendar is cal, "to_offset_date")
    need(ot.nanosecond_of_day == total % DAY and ot.offset.seconds == o, "to_offset_time")
    need(od.at(a.time_of_day) == a, "OffsetDate.at")
    accessor_parity(od, a.date, "OffsetDate")
    accessor_parity(ot, a.time_of_day, "OffsetTime")
    need(ot.on(a.date) == a, "OffsetTime.on")
    need(OffsetDate(a.date, O).with_offset(O2).offset.seconds == o2 and OffsetDate(a.date, O).with_offset(O2).date == a.date, "OffsetDate.with_offset")
    need(OffsetTime(a.time_of_day, O).with_offset(O2).time_of_day == a.time_of_day, "OffsetTime.with_offset")
    if in_cal(cid2, total):
        oc = od.with_calendar(cal2)
        need(oc.date._days_since_epoch == total // DAY and oc.calendar is cal2 and oc.offset.seconds == o, "OffsetDate.with_calendar")
    z = a.in_fixed_zone()
    need(inst_ns(z.to_instant()) == i and z.offset.seconds == o and z.calendar is cal and z.local_date_time == a.local_date_time, "in_fixed_zone")
    need(z.to_offset_date_time() == a, "in_fixed_zone/to_offset_date_time")
    # the fixed zone must really have this offset, so that adding a duration re-derives the same offset
    zo = z.zone.get_utc_offset(I).seconds
    need(zo == o and z.zone.min_offset.seconds == o and z.zone.max_offset.seconds == o, "in_fixed_zone/zone-offset", f"offset {o}: zone {z.zone.id} reports {zo}")
    if INST_MIN <= i + d <= INST_MAX and in_cal(cid, i + d + o * SEC):
        zd = z + D
        need(inst_ns(zd.to_instant()) == i + d and zd.offset.seconds == o and zd.calendar is cal and zd.zone is z.zone, "in_fixed_zone/add-duration", f"offset {o}: after + {d} ns offset {zd.offset.seconds}")
    nt = nt or double or not ok_add or not ok_sub
    return CaseInfo(bool(nt), "odt:double-carry" if double else ("odt:edge" if not (ok_add and ok_sub) else "odt"))


def _k_zdt(c) -> CaseInfo:
    from pyoda_time import Duration, Offset, ZonedDateTime

    i, zid, cid, d = c["i"], c["zone"], c["cal"], c["d"]
    if not INST_MIN <= i <= INST_MAX:
        raise InvalidCase
    zone = zone_for(zid)
    cal = pyo.cal(cid)
    I = inst(i)
    o = zone.get_utc_offset(I).seconds
    if zid.startswith("fixed:"):
        need(o == int(zid[6:]), "fixed-zone-offset", f"for_offset({zid[6:]}) reports {o}")
    total = i + o * SEC
    ok = in_cal(cid, total)
    try:
        z = I.in_zone(zone, cal)
    except RAISES:
        need(not ok, "in_zone/raised-in-range", f"i={i} zone={zid} cal={cid}")
        return CaseInfo(True, "zdt:construction-raises")
    need(ok, "in_zone/out-of-range-not-raised")

    def check(zz, ii: int, what: str) -> None:
        oo = zone.get_utc_offset(inst(ii)).seconds
        need(isinstance(zz, ZonedDateTime), f"{what}/type")
        need(inst_ns(zz.to_instant()) == ii, f"{what}/instant", f"{inst_ns(zz.to_instant())} != {ii}")
        need(zz.offset.seconds == oo, f"{what}/offset", f"{zz.offset.seconds} != zone offset {oo}")
        need(pyo.ldt_total(zz.local_date_time) == ii + oo * SEC, f"{what}/local")
        need(zz.calendar is cal, f"{what}/calendar", f"{zz.calendar.id}")
        need(zz.zone is zone, f"{what}/zone")
        need(zz.to_offset_date_time().offset.seconds == oo and inst_ns(zz.to_offset_date_time().to_instant()) == ii, f"{what}/to_offset_date_time")
        accessor_parity(zz, zz.local_date_time, what)
        need(zz.date == zz.local_date_time.date and zz.time_of_day == zz.local_date_time.time_of_day, f"{what}/parts")

    check(z, i, "in_zone")
    if cid == "ISO":
        z0 = I.in_zone(zone)
        check(z0, i, "in_zone [no calendar]")
        need(z0 == z and pyo.fields(z0.date) == pyo.fields(pyo.date_from_day("ISO", total // DAY)), "in_zone/no-calendar-differs", f"{i} {zid}")
        z00 = ZonedDateTime(instant=I, zone=zone)
        check(z00, i, "ctor(instant,zone) [no calendar]")
        need(z00 == z, "ctor(instant,zone)/no-calendar-differs")
    z2 = ZonedDateTime(instant=I, zone=zone, calendar=cal)
    check(z2, i, "ctor(instant,zone,calendar)")
    need(z == z2, "ctor-equals-in_zone")
    z3 = ZonedDateTime(local_date_time=z.local_date_time, zone=zone, offset=Offset.from_seconds(o))
    check(z3, i, "ctor(ldt,zone,offset)")
    j = i + d
    oj = zone.get_utc_offset(inst(j)).seconds if INST_MIN <= j <= INST_MAX else 0
    okj = INST_MIN <= j <= INST_MAX and in_cal(cid, j + oj * SEC)
    try:
        r = z + Duration.from_nanoseconds(d)
    except RAISES:
        need(not okj, "add/raised-in-range", f"i={i} d={d}")
        return CaseInfo(True, "zdt:add-raises")
    need(okj, "add/out-of-range-not-raised")
    check(r, j, "add-duration")
    # via the offset date-time
    a = I.with_offset(Offset.from_seconds(o), cal)
    zz = a.in_zone(zone)
    need(inst_ns(zz.to_instant()) == i and zz.offset.seconds == o and zz.zone is zone, "odt.in_zone")
    return CaseInfo(o != oj or cid != "ISO" or total // DAY != i // DAY, "zdt:offset-changes" if o != oj else "zdt")


# ---------------------------------------------------------------------------------------------------------------


def task_hyp(ctx: Ctx, shard: int, n: int) -> None:
    from pyoda_time import DateTimeZoneProviders

    s = sub_seed(ctx.seed, "c11", shard)
    all_ids = sorted(DateTimeZoneProviders.tzdb.ids)
    extra = [all_ids[(sub_seed(ctx.seed, "zones", shard, k)) % len(all_ids)] for k in range(12)]
    zones = ZONE_IDS + extra + ["fixed:0", "fixed:64800", "fixed:-64800", "fixed:1", "fixed:-1799", "fixed:20700", "fixed:-44100", "fixed:31500", "fixed:45900", "fixed:900", "fixed:-2700", "fixed:12345", "fixed:-33333"]
    zones += [f"fixed:{(sub_seed(ctx.seed, 'fz', shard, k) % 129601) - 64800}" for k in range(6)]
    units = (100, 10**3, 10**6, SEC, 60 * SEC, 3600 * SEC, DAY, 7 * DAY)
    instants = st.one_of(
        ints_biased(INST_MIN, INST_MAX, units),
        ints_biased(INST_MIN, INST_MIN + 40 * 3600 * SEC, (SEC, 3600 * SEC)),
        ints_biased(INST_MAX - 40 * 3600 * SEC, INST_MAX, (SEC, 3600 * SEC)),
        ints_biased(-30000 * DAY, 30000 * DAY, units),
        ints_biased(-26000 * DAY, 48500 * DAY, (DAY, 365 * DAY)),  # 1898 .. 2102: the ISO day-number fast-path window and its edges
    )
    offs = st.one_of(ints_biased(-OFF_MAX, OFF_MAX, (60, 900, 3600)), st.sampled_from([-OFF_MAX, OFF_MAX, 0, 1, -1, 43200, -43200]))
    durs = st.one_of(
        ints_biased(-3 * DAY, 3 * DAY, units),
        ints_biased(-(2**30) * DAY, 2**30 * DAY - 1, units),
        ints_biased(-400 * DAY, 400 * DAY, units),
    )
    cals = st.sampled_from(pyo.cal_ids())

    def body(i, i2, o, o2, cid, cid2, d, zid, near):
        # project the instant into (or near) the calendar's own range so that non-ISO calendars are exercised
        c = pyo.cal(cid)
        lo, hi = max(INST_MIN, c._min_days * DAY), min(INST_MAX, (c._max_days + 1) * DAY - 1)
        if near % 4 == 0:
            ii = lo + (i % (40 * 3600 * SEC)) - 20 * 3600 * SEC
        elif near % 4 == 1:
            ii = hi - (i % (40 * 3600 * SEC)) + 20 * 3600 * SEC
        else:
            ii = lo + i % (hi - lo + 1)
        ii = max(INST_MIN, min(INST_MAX, ii))
        ctx.case("odt", {"i": ii, "o": o, "cal": cid, "o2": o2, "cal2": cid2, "d": d, "i2": i2})
        ctx.case("odt", {"i": i, "o": o, "cal": "ISO", "o2": -o if near % 2 else o2, "cal2": cid2, "d": d, "i2": i2})
        # an offset change of more than 24 h that lands exactly on (or 1 ns around) a day boundary: double carry
        lo_o, hi_o = min(o, o2), max(o, o2)
        if hi_o - lo_o > 86400 // 2:
            day0 = (i // DAY) * DAY
            for nod_local, oo, oo2 in ((2 * DAY - (hi_o - lo_o) * SEC, lo_o, hi_o), ((hi_o - lo_o) * SEC - DAY, hi_o, lo_o)):
                if 0 <= nod_local < DAY:
                    for dl in (0, -1, 1):
                        ix = day0 + nod_local + dl - oo * SEC
                        if INST_MIN <= ix <= INST_MAX:
                            ctx.case("odt", {"i": ix, "o": oo, "cal": cid if near % 2 else "ISO", "o2": oo2, "cal2": cid2, "d": d, "i2": i2})
        # the two edge years of the ISO day-number fast path (1900 and 2100 are the non-leap century years in it)
        edge_i = Z.year_start_ns(2100 if near % 2 else 1900) + i % (366 * DAY)
        ctx.case("odt", {"i": edge_i, "o": o, "cal": "ISO", "o2": o2, "cal2": cid2, "d": d, "i2": i2})
        ctx.case("zdt", {"i": edge_i, "zone": zid, "cal": "ISO", "d": d})
        ctx.case("zdt", {"i": ii, "zone": zid, "cal": cid, "d": d})
        ctx.case("zdt", {"i": i, "zone": zid, "cal": "ISO", "d": d})

    run_hypothesis(
        body,
        dict(i=instants, i2=instants, o=offs, o2=offs, cid=cals, cid2=cals, d=durs, zid=st.sampled_from(zones), near=st.integers(0, 7)),
        n,
        s,
    )


def tasks(tier: str, seed: int) -> list[Task]:
    mult = 1 if tier == "quick" else 20
    return [Task("task_hyp", {"shard": i, "n": 3000 * mult}, f"hyp-{i}") for i in range(16)]
