"""C19 - clocks follow their simple model under any sequence of operations.

Sequential: generated operation sequences against the model (now, auto_advance); "every operation completes" is
decided deterministically by an instrumented non-re-entrant lock (self-deadlock is reported at once).
Concurrent: 2-3 threads x <= 4 ops under generated line-level schedules; the observed results must equal those of
some sequential interleaving (linearizability); plus a 16-thread stress run with a deterministic oracle.
"""

from __future__ import annotations

import sys
import threading
import time

from hypothesis import strategies as st

from harness import pyo, sched
from harness import zones as Z
from harness.core import CaseInfo, Ctx, InvalidCase, Mismatch, Task, sub_seed
from harness.gen import ints_biased, run_hypothesis

PROPERTY = "C19"
LEVEL = "exploration"
RULE = (
    "Hypothesis-generated operation sequences (read, advance(d), advance_<7 units>(n), reset(i), auto_advance set/get, "
    "ZonedClock getters) with amounts incl. ones overflowing Instant, compared step by step with the model "
    "(now, auto); generated (operation lists for 2-3 threads, schedule) pairs executed under a cooperative line-level "
    "scheduler and checked for linearizability; a 16-thread stress run; ZonedClock built through the constructor, "
    "IClock.in_zone and in_utc; SystemClock against the live OS clock and against scripted time_ns() readings. Non-trivial: a history with >= 1 unit-advance "
    "and a later read, or a schedule with >= 1 pre-emption. Distinct = case hash."
)
ASSUMPTIONS = [
    "pre-emption is modelled at source-line granularity inside pyoda_time/testing/_fake_clock.py (GIL: bytecodes of one line are not interleaved finer)",
    "SystemClock is bracketed by two time.time_ns() reads with 1 s tolerance",
]
CASE_SCALE = {"stress": 40, "conc": 4}  # real threads / scheduled threads per case

DAY = Z.DAY
UNITS = {"nanoseconds": 1, "ticks": 100, "milliseconds": 10**6, "seconds": 10**9, "minutes": 60 * 10**9, "hours": 3600 * 10**9, "days": DAY}
DUR_MIN = -(1 << 30) * DAY
DUR_MAX = (1 << 30) * DAY - 1
RAISES = (ValueError, OverflowError)


def need(cond: bool, sig: str, msg: str = "") -> None:
    if not cond:
        raise Mismatch(sig, msg)


def eval_case(kind: str, c: dict) -> CaseInfo:
    return globals()["_k_" + kind](c)


_patched = False


def patch_locks() -> None:
    """FakeClock creates its lock with threading.Lock(): give it the instrumented, non-blocking one."""
    global _patched
    if not _patched:
        import pyoda_time.testing._fake_clock as fc

        fc.threading = sched.ThreadingShim()  # type: ignore[attr-defined]
        _patched = True


def mk_clock(now: int, auto: int):
    from pyoda_time import Duration
    from pyoda_time.testing import FakeClock

    patch_locks()
    return FakeClock(Z.inst(now), Duration.from_nanoseconds(auto))


def apply_model(state: list, op: list):
    """Returns the expected result ('raise' | int | None) and updates state=[now, auto]."""
    kind = op[0]
    if kind == "read":
        r = state[0]
        nxt = state[0] + state[1]
        if not Z.INST_MIN <= nxt <= Z.INST_MAX:
            return "raise"
        state[0] = nxt
        return r
    if kind == "advance":
        nxt = state[0] + op[1]
        if not Z.INST_MIN <= nxt <= Z.INST_MAX:
            return "raise"
        state[0] = nxt
        return None
    if kind.startswith("advance_"):
        d = op[1] * UNITS[kind[8:]]
        if not DUR_MIN <= d <= DUR_MAX:
            return "raise"
        nxt = state[0] + d
        if not Z.INST_MIN <= nxt <= Z.INST_MAX:
            return "raise"
        state[0] = nxt
        return None
    if kind == "reset":
        state[0] = op[1]
        return None
    if kind == "set_auto":
        state[1] = op[1]
        return None
    if kind == "get_auto":
        return ("auto", state[1])
    raise InvalidCase


def apply_real(clock, op: list):
    from pyoda_time import Duration

    kind = op[0]
    try:
        if kind == "read":
            return Z.ns(clock.get_current_instant())
        if kind == "advance":
            clock.advance(Duration.from_nanoseconds(op[1]))
            return None
        if kind.startswith("advance_"):
            getattr(clock, kind)(op[1])
            return None
        if kind == "reset":
            clock.reset(Z.inst(op[1]))
            return None
        if kind == "set_auto":
            clock.auto_advance = Duration.from_nanoseconds(op[1])
            return None
        if kind == "get_auto":
            return ("auto", clock.auto_advance.to_nanoseconds())
    except RAISES:
        return "raise"
    except sched.SelfDeadlock:
        raise Mismatch(f"self-deadlock/{kind}", f"{kind} re-acquires the clock's own non-re-entrant lock: the call never completes") from None
    raise InvalidCase


def valid_op(op) -> bool:
    if not isinstance(op, list) or not op or not isinstance(op[0], str):
        return False
    k = op[0]
    if k in ("read", "get_auto"):
        return True
    if len(op) != 2 or not isinstance(op[1], int):
        return False
    if k == "advance" or k == "set_auto":
        return DUR_MIN <= op[1] <= DUR_MAX
    if k == "reset":
        return Z.INST_MIN <= op[1] <= Z.INST_MAX
    return k.startswith("advance_") and k[8:] in UNITS and abs(op[1]) < 10**30


def _k_seq(c) -> CaseInfo:
    now, auto, ops = c["now"], c["auto"], c["ops"]
    if not (Z.INST_MIN <= now <= Z.INST_MAX and DUR_MIN <= auto <= DUR_MAX and all(valid_op(o) for o in ops)):
        raise InvalidCase
    clock = mk_clock(now, auto)
    state = [now, auto]
    saw_unit = False
    nt = False
    for i, op in enumerate(ops):
        before = list(state)
        exp = apply_model(state, op)
        got = apply_real(clock, op)
        if isinstance(exp, tuple):
            exp = tuple(exp)
        need(got == exp, f"step/{op[0]}", f"step {i} {op}: got {got}, model {exp} (state before {before})")
        if exp == "raise":
            # an overflowing step must leave the state unchanged
            state[:] = before
        if op[0].startswith("advance_"):
            saw_unit = True
        if op[0] == "read" and saw_unit:
            nt = True
    # final state agrees
    final = apply_real(clock, ["get_auto"])
    need(final == ("auto", state[1]), "final/auto")
    clock.auto_advance = __import__("pyoda_time").Duration.zero
    need(Z.ns(clock.get_current_instant()) == state[0], "final/now", f"model {state[0]}")
    return CaseInfo(nt, "seq")


def _k_zoned(c) -> CaseInfo:
    from pyoda_time import Duration, ZonedClock
    from pyoda_time.testing import FakeClock

    now, auto, zid, cid, getters = c["now"], c["auto"], c["zone"], c["cal"], c["getters"]
    if not (Z.INST_MIN + 20 * 3600 * 10**9 <= now <= Z.INST_MAX - 20 * 3600 * 10**9 and abs(auto) <= DAY):
        raise InvalidCase
    patch_locks()
    z = Z.zone(zid)
    cal = pyo.cal(cid)
    fake = FakeClock(Z.inst(now), Duration.from_nanoseconds(auto))
    # three spellings of the same view: the constructor, IClock.in_zone(zone[, calendar]) and in_utc()
    route = (now // 1000 + len(getters)) % 3
    if route == 0:
        zc = ZonedClock(fake, z, cal)
    elif route == 1 or zid != "UTC" or cid != "ISO":
        zc = fake.in_zone(z, cal) if cid != "ISO" or route == 1 else fake.in_zone(z)
    else:
        zc = fake.in_utc()
    need(isinstance(zc, ZonedClock) and (zc.zone is z or (zid == "UTC" and zc.zone.id == "UTC")) and zc.calendar is cal and zc.clock is fake, "zoned/attrs")
    z = zc.zone
    cur = now
    for g in getters:
        if not Z.INST_MIN + 20 * 3600 * 10**9 <= cur <= Z.INST_MAX - 20 * 3600 * 10**9:
            break
        off = z.get_utc_offset(Z.inst(cur)).seconds
        local = cur + off * 10**9
        if not cal._min_days <= local // DAY <= cal._max_days:
            break
        if g == "instant":
            need(Z.ns(zc.get_current_instant()) == cur, "zoned/instant")
        elif g == "zoned":
            r = zc.get_current_zoned_date_time()
            need(Z.ns(r.to_instant()) == cur and r.zone is z and r.calendar is cal and r.offset.seconds == off, "zoned/zoned_date_time", f"{cur}")
        elif g == "local":
            r = zc.get_current_local_date_time()
            need(pyo.ldt_total(r) == local and r.calendar is cal, "zoned/local_date_time", f"{cur}")
        elif g == "offset":
            r = zc.get_current_offset_date_time()
            need(Z.ns(r.to_instant()) == cur and r.offset.seconds == off and r.calendar is cal, "zoned/offset_date_time")
        elif g == "date":
            r = zc.get_current_date()
            need(r._days_since_epoch == local // DAY and r.calendar is cal, "zoned/date")
        elif g == "time":
            r = zc.get_curent_time_of_day()
            need(r.nanosecond_of_day == local % DAY, "zoned/time_of_day")
        else:
            raise InvalidCase
        cur += auto  # every getter consumes exactly one read of the wrapped clock
    return CaseInfo(auto != 0 and len(getters) > 1, "zoned")


def _k_system(c) -> CaseInfo:
    from pyoda_time import SystemClock

    a = time.time_ns()
    i = Z.ns(SystemClock.instance.get_current_instant())
    b = time.time_ns()
    need(a - 10**9 <= i <= b + 10**9, "system-clock", f"{a} <= {i} <= {b}")
    need(SystemClock.instance is SystemClock.instance, "system-clock/singleton")
    return CaseInfo(True, "system")


def _k_from_utc(c) -> CaseInfo:
    """FakeClock.from_utc(y, m, d[, h[, mi[, s]]]): the clock starts at that UTC civil time (omitted parts are zero),
    with no auto-advance.  Oracle: datetime's proleptic Gregorian ordinal."""
    import datetime as _dt

    from pyoda_time import Duration
    from pyoda_time.testing import FakeClock

    patch_locks()
    args = list(c["args"])
    if not (3 <= len(args) <= 6) or not all(isinstance(a, int) for a in args):
        raise InvalidCase
    try:
        d = _dt.date(*args[:3])
    except ValueError:
        raise InvalidCase from None
    h, mi, sec = (args[3:] + [0, 0, 0])[:3]
    if not (0 <= h < 24 and 0 <= mi < 60 and 0 <= sec < 60):
        raise InvalidCase
    want = ((d.toordinal() - 719163) * 86400 + h * 3600 + mi * 60 + sec) * 10**9
    clock = FakeClock.from_utc(*args)
    need(Z.ns(clock.get_current_instant()) == want, "from_utc/start", f"{args}")
    need(clock.auto_advance == Duration.zero, "from_utc/auto-advance-not-zero")
    need(Z.ns(clock.get_current_instant()) == want, "from_utc/second-read")
    return CaseInfo(len(args) < 6 or bool(h or mi or sec), f"from_utc:{len(args)}args")


def _k_system_scripted(c) -> CaseInfo:
    """SystemClock over a scripted OS reading: the module's `time` is replaced by a shim whose time_ns() returns the
    scripted value (any epoch-relative reading an OS clock can deliver, also before 1970 and with sub-second parts).
    Asserted only when the implementation actually consulted time_ns() (another exact source would not be scripted)."""
    import pyoda_time._system_clock as sc
    from pyoda_time import SystemClock

    reading = c["ns"]
    if not isinstance(reading, int) or abs(reading) > 10**30:
        raise InvalidCase
    real = sc.time

    class Shim:
        calls = 0

        def time_ns(self):
            Shim.calls += 1
            return reading

        def __getattr__(self, name):
            return getattr(real, name)

    sc.time = Shim()
    try:
        try:
            got = SystemClock.instance.get_current_instant()
        except (ValueError, OverflowError):
            got = None
    finally:
        sc.time = real
    if Shim.calls == 0:
        return CaseInfo(False, "system:scripted-source-not-used")
    if Z.INST_MIN <= reading <= Z.INST_MAX:
        need(got is not None, "system-clock/scripted/raised-in-range", f"{reading}")
        need(Z.ns(got) == reading, "system-clock/scripted", f"OS reading {reading} ns -> {Z.ns(got)} (delta {Z.ns(got) - reading})")
    else:
        need(got is None, "system-clock/scripted/out-of-range-not-raised", f"{reading}")
    return CaseInfo(reading < 0 or reading % 10**9 != 0, "system:scripted")


# --- concurrency -----------------------------------------------------------------------------------------------


def linearizable(now: int, auto: int, threads: list[list], results: list[list], final: tuple[int, int]) -> bool:
    """Is there an interleaving of the per-thread op lists whose model results equal the observed ones?"""
    n = len(threads)
    seen = set()

    def rec(pos: tuple, state: tuple) -> bool:
        if (pos, state) in seen:
            return False
        if all(pos[i] == len(threads[i]) for i in range(n)):
            if state == final:
                return True
            seen.add((pos, state))
            return False
        for i in range(n):
            if pos[i] < len(threads[i]):
                st_ = list(state)
                before = list(state)
                exp = apply_model(st_, threads[i][pos[i]])
                if exp == "raise":
                    st_ = before
                if isinstance(exp, tuple):
                    exp = tuple(exp)
                if exp == results[i][pos[i]]:
                    np_ = pos[:i] + (pos[i] + 1,) + pos[i + 1 :]
                    if rec(np_, tuple(st_)):
                        return True
        seen.add((pos, state))
        return False

    return rec(tuple(0 for _ in threads), (now, auto))


def _k_conc(c) -> CaseInfo:
    now, auto, threads, schedule = c["now"], c["auto"], c["threads"], c["schedule"]
    if not (Z.INST_MIN <= now <= Z.INST_MAX and DUR_MIN <= auto <= DUR_MAX and 2 <= len(threads) <= 3):
        raise InvalidCase
    if any(len(t) > 4 or not all(valid_op(o) for o in t) for t in threads) or not all(isinstance(x, int) and x >= 0 for x in schedule):
        raise InvalidCase
    clock = mk_clock(now, auto)
    results: list[list] = [[] for _ in threads]

    def worker(i: int):
        def run():
            for op in threads[i]:
                results[i].append(apply_real(clock, op))

        return run

    try:
        # yield points: every line of the clock, and of the Instant/Duration arithmetic it calls while holding state
        r = sched.run_schedule([worker(i) for i in range(len(threads))], schedule, ("testing/_fake_clock.py", "pyoda_time/_instant.py", "pyoda_time/_duration.py"))
    except sched.Deadlock as e:
        raise Mismatch("deadlock", f"{e}") from None
    for w in r.workers:
        if w.error is not None:
            if isinstance(w.error, Mismatch):
                raise w.error
            raise w.error
    need(all(len(results[i]) == len(threads[i]) for i in range(len(threads))), "operation-did-not-complete")
    final_auto = apply_real(clock, ["get_auto"])[1]
    clock.auto_advance = __import__("pyoda_time").Duration.zero
    final_now = Z.ns(clock.get_current_instant())
    ok = linearizable(now, auto, threads, results, (final_now, final_auto))
    need(ok, "not-linearizable", f"threads {threads} schedule-trace {r.trace[:60]} results {results} final {(final_now, final_auto)}")
    reads = [x for res in results for x in res if isinstance(x, int)]
    only_reads = all(op[0] == "read" for t in threads for op in t)
    if only_reads and auto != 0:
        need(len(set(reads)) == len(reads), "duplicate-read-with-auto-advance", f"{reads}")
    return CaseInfo(r.preemptions >= 1, f"conc:{'preempted' if r.preemptions else 'serial'}")


def _k_stress(c) -> CaseInfo:
    """16 real threads, tiny switch interval; deterministic oracle (cannot false-alarm, can only miss)."""
    from pyoda_time import Duration
    from pyoda_time.testing import FakeClock

    nthreads, reads = c["threads"], c["reads"]
    clock = FakeClock(Z.inst(0), Duration.from_nanoseconds(1))
    out: list[list[int]] = [[] for _ in range(nthreads)]
    old = sys.getswitchinterval()
    sys.setswitchinterval(1e-6)
    try:
        def body(i):
            for _ in range(reads):
                out[i].append(Z.ns(clock.get_current_instant()))

        ts = [threading.Thread(target=body, args=(i,)) for i in range(nthreads)]
        for t in ts:
            t.start()
        for t in ts:
            t.join(60)
        need(not any(t.is_alive() for t in ts), "stress/thread-did-not-finish")
    finally:
        sys.setswitchinterval(old)
    allv = [x for o in out for x in o]
    need(len(set(allv)) == len(allv), "stress/duplicate-instants", f"{len(allv) - len(set(allv))} duplicates among {len(allv)} reads")
    need(sorted(allv) == list(range(nthreads * reads)), "stress/values")
    need(Z.ns(clock.get_current_instant()) == nthreads * reads, "stress/final")
    # lost updates: concurrent advances must all be applied
    clock2 = FakeClock(Z.inst(0))
    sys.setswitchinterval(1e-6)
    try:
        def adv(i):
            for k in range(reads):
                if (i + k) % 2:
                    clock2.advance(Duration.from_nanoseconds(1))
                else:
                    clock2.advance_nanoseconds(1)

        ts = [threading.Thread(target=adv, args=(i,)) for i in range(nthreads)]
        for t in ts:
            t.start()
        for t in ts:
            t.join(60)
        need(not any(t.is_alive() for t in ts), "stress/advance-did-not-finish")
    finally:
        sys.setswitchinterval(old)
    got = Z.ns(clock2.get_current_instant())
    need(got == nthreads * reads, "stress/lost-advance", f"{nthreads * reads - got} of {nthreads * reads} advances lost")
    return CaseInfo(True, "stress")


# ---------------------------------------------------------------------------------------------------------------


def st_op():
    units = (100, 10**6, 10**9, 3600 * 10**9, DAY)
    dur = st.one_of(ints_biased(-3 * DAY, 3 * DAY, units), ints_biased(DUR_MIN, DUR_MAX, units))
    inst = st.one_of(ints_biased(Z.INST_MIN, Z.INST_MAX, units), ints_biased(-(10**18), 10**18, units))
    amount = st.one_of(st.integers(-5, 5), ints_biased(-(10**6), 10**6, (24, 60, 1000)), st.sampled_from([2**31, -(2**31), 2**63, 10**20, -(10**20), 10**29]))
    unit_ops = st.tuples(st.sampled_from(sorted(UNITS)), amount).map(lambda t: ["advance_" + t[0], t[1]])
    return st.one_of(
        st.just(["read"]),
        st.just(["read"]),
        dur.map(lambda d: ["advance", d]),
        unit_ops,
        unit_ops,
        inst.map(lambda i: ["reset", i]),
        dur.map(lambda d: ["set_auto", d]),
        st.just(["get_auto"]),
    )


def task_seq(ctx: Ctx, shard: int, n: int) -> None:
    s = sub_seed(ctx.seed, "c19", shard)
    units = (100, 10**9, DAY)
    inst = st.one_of(ints_biased(Z.INST_MIN, Z.INST_MAX, units), ints_biased(-(10**18), 10**18, units))
    auto = st.one_of(st.just(0), st.integers(-5, 5), ints_biased(-DAY, DAY, (10**9,)))
    zones = ["UTC", "Europe/London", "America/New_York", "Pacific/Apia", "Asia/Kathmandu", "fixed:3600", "fixed:-64800"]

    from checks import c06

    def body(now, au, ops, zid, cid, getters):
        ctx.case("seq", {"now": now, "auto": au, "ops": ops})
        ctx.case("zoned", {"now": max(Z.INST_MIN + 10**15, min(Z.INST_MAX - 10**15, now)), "auto": au, "zone": zid, "cal": cid, "getters": getters})
        # reads that land exactly on (and 1 ns around) a zone transition after earlier reads inside the previous interval
        if not zid.startswith("fixed:") and zid != "UTC":
            ivs = c06.ref_intervals("bundled", c06.canonical_of("bundled", zid))
            if len(ivs) > 2:
                T_ = ivs[1 + abs(now) % (len(ivs) - 1)][0]
                step = (abs(au) or 1) * (1 if au >= 0 else -1)
                j = 1 + abs(now) % 3
                for dl in (0, -1, 1):
                    ctx.case("zoned", {"now": T_ + dl - step * j, "auto": step, "zone": zid, "cal": "ISO" if dl else cid, "getters": (getters * 3)[: j + 2]})

    run_hypothesis(
        body,
        dict(now=inst, au=auto, ops=st.lists(st_op(), min_size=1, max_size=30), zid=st.sampled_from(zones), cid=st.sampled_from(pyo.cal_ids()), getters=st.lists(st.sampled_from(["instant", "zoned", "local", "offset", "date", "time"]), min_size=1, max_size=6)),
        n,
        s,
    )
    ctx.case("system", {})
    for k in range(40):
        r = sub_seed(ctx.seed, "c19utc", shard, k)
        args = [1 + r % 9999, 1 + (r >> 16) % 12, 1 + (r >> 24) % 28, (r >> 32) % 24, (r >> 40) % 60, (r >> 48) % 60]
        ctx.case("from_utc", {"args": args[: 3 + k % 4]})
    # scripted OS readings: around the epoch, sub-second parts of both signs, the ends of the Instant range
    for base in (0, -1, 1, -10**9, 10**9, -1_500_000_000, 1_709_251_200_123_456_789, -(10**18), Z.INST_MIN, Z.INST_MAX, Z.INST_MIN - 1, Z.INST_MAX + 1):
        for dl in (0, -1, 1, 999_999_999, -999_999_999, sub_seed(ctx.seed, "c19sys", shard, base) % 10**9):
            ctx.case("system_scripted", {"ns": base + dl})


def task_conc(ctx: Ctx, shard: int, n: int) -> None:
    s = sub_seed(ctx.seed, "c19c", shard)
    inst = ints_biased(-(10**18), 10**18, (10**9, DAY))
    auto = st.one_of(st.just(1), st.integers(-3, 3), st.just(0))
    small_op = st.one_of(
        st.just(["read"]),
        st.just(["read"]),
        st.integers(-5, 5).map(lambda d: ["advance", d]),
        st.tuples(st.sampled_from(["nanoseconds", "seconds"]), st.integers(-3, 3)).map(lambda t: ["advance_" + t[0], t[1]]),
        st.integers(-100, 100).map(lambda i: ["reset", i]),
        st.integers(-3, 3).map(lambda d: ["set_auto", d]),
        st.just(["get_auto"]),
    )

    def body(now, au, threads, schedule, reads_only):
        if reads_only:
            threads = [[["read"]] * max(1, len(t)) for t in threads]
        ctx.case("conc", {"now": now, "auto": au if not reads_only or au != 0 else 1, "threads": threads, "schedule": schedule})

    run_hypothesis(
        body,
        dict(now=inst, au=auto, threads=st.lists(st.lists(small_op, min_size=1, max_size=4), min_size=2, max_size=3), schedule=st.lists(st.integers(0, 5), min_size=1, max_size=200), reads_only=st.booleans()),
        n,
        s,
    )


def task_stress(ctx: Ctx, rounds: int) -> None:
    for _ in range(rounds):
        ctx.case("stress", {"threads": 16, "reads": 200})


def tasks(tier: str, seed: int) -> list[Task]:
    thorough = tier == "thorough"
    out = [Task("task_seq", {"shard": i, "n": 2500 if not thorough else 25000}, f"seq-{i}") for i in range(8)]
    out += [Task("task_conc", {"shard": i, "n": 700 if not thorough else 8000}, f"conc-{i}") for i in range(7)]
    out.append(Task("task_stress", {"rounds": 3 if not thorough else 60}, "stress"))
    return out
