"""C10 - time-of-day and local date-time arithmetic is exact and carries correctly.

Model: LocalTime = int in [0, 86400e9); LocalDateTime = day_number * DAY + nanosecond_of_day on the local line.
"""

from __future__ import annotations

from hypothesis import strategies as st

from harness import pyo
from harness.core import CaseInfo, Ctx, InvalidCase, Mismatch, Task, sub_seed
from harness.gen import ints_biased, run_hypothesis

PROPERTY = "C10"
LEVEL = "exploration"
RULE = (
    "Accessor decomposition enumerated at every minute boundary -1/0/+1 ns plus generated ns; plus_<unit>(n) for 7 "
    "units with amounts biased to multiples of units-per-day +/-1, 2^31, 2^63, 10^30; all factories with in/out-of-"
    "range components (incl. arguments whose product wraps at 2^32..2^128); LocalTime +/- Period, truncating "
    "adjusters, on(date)/with_offset; LocalDateTime in all calendars incl. plus(Period)/minus(Period) with mixed-sign components. "
    "Oracle: int model. Non-trivial: amount is a non-zero multiple of units-per-day +/-1, negative with a borrow, "
    "beyond 64 bits, crosses a day boundary, or a factory argument out of range. Distinct = (kind, case) hash."
)
ASSUMPTIONS = ["date part of LocalDateTime results is compared by day number (day<->date bijection is C01's subject)"]

DAY = pyo.DAY
UNITS = {
    "hours": 3600 * 10**9,
    "minutes": 60 * 10**9,
    "seconds": 10**9,
    "milliseconds": 10**6,
    "microseconds": 10**3,
    "ticks": 100,
    "nanoseconds": 1,
}
LDT_UNITS = ["hours", "minutes", "seconds", "milliseconds", "ticks", "nanoseconds"]
RAISES = (ValueError, ArithmeticError)  # OverflowError and decimal.InvalidOperation are ArithmeticErrors


def need(cond: bool, sig: str, msg: str = "") -> None:
    if not cond:
        raise Mismatch(sig, msg)


def eval_case(kind: str, c: dict) -> CaseInfo:
    return globals()["_k_" + kind](c)


def check_time_accessors(t, ns: int, what: str) -> None:
    need(t.nanosecond_of_day == ns, f"{what}/nanosecond_of_day", f"{t.nanosecond_of_day} != {ns}")
    h = ns // UNITS["hours"]
    exp = {
        "hour": h,
        "minute": ns // UNITS["minutes"] % 60,
        "second": ns // 10**9 % 60,
        "millisecond": ns // 10**6 % 1000,
        "microsecond": ns // 10**3 % 10**6,
        "tick_of_second": ns // 100 % 10**7,
        "tick_of_day": ns // 100,
        "nanosecond_of_second": ns % 10**9,
        "clock_hour_of_half_day": 12 if h % 12 == 0 else h % 12,
    }
    for k, v in exp.items():
        if not hasattr(type(t), k):
            continue  # e.g. OffsetTime has no `microsecond`
        got = getattr(t, k)
        need(got == v, f"{what}/{k}", f"ns={ns}: {got} != {v}")


def lt_accessors(ns: int) -> None:
    from pyoda_time import LocalDate, LocalTime, Offset, OffsetTime

    t = LocalTime.from_nanoseconds_since_midnight(ns)
    check_time_accessors(t, ns, "LocalTime")
    ot = OffsetTime(t, Offset.from_seconds(3600))
    check_time_accessors(ot, ns, "OffsetTime")
    need(ot.time_of_day == t, "OffsetTime/time_of_day")
    ldt = LocalDate(2001, 2, 3).at(t)
    check_time_accessors(ldt, ns, "LocalDateTime")
    need(ldt.time_of_day == t, "LocalDateTime/time_of_day")


def _k_lt_accessors(c) -> CaseInfo:
    ns = c["ns"]
    if not 0 <= ns < DAY:
        raise InvalidCase
    lt_accessors(ns)
    return CaseInfo(ns % UNITS["minutes"] in (0, 1, UNITS["minutes"] - 1) or ns % 100 != 0, "lt_accessors")


def _k_lt_plus(c) -> CaseInfo:
    from pyoda_time import LocalTime

    ns, unit, n = c["ns"], c["unit"], c["n"]
    if not 0 <= ns < DAY:
        raise InvalidCase
    u = UNITS[unit]
    t = LocalTime.from_nanoseconds_since_midnight(ns)
    r = getattr(t, "plus_" + unit)(n)
    exp = (ns + n * u) % DAY
    need(isinstance(r, LocalTime) and r.nanosecond_of_day == exp, f"plus_{unit}", f"ns={ns} n={n}: {r.nanosecond_of_day} != {exp}")
    need(t.nanosecond_of_day == ns, "receiver-mutated")
    upd = DAY // u
    nt = (n != 0 and abs(n) % upd in (0, 1, upd - 1) and abs(n) >= upd - 1) or abs(n) >= 2**63 or (n < 0 and ns + (n * u) % -DAY < 0) or (ns + n * u) // DAY != 0
    return CaseInfo(bool(nt), f"lt_plus:{unit}")


def _k_lt_factory(c) -> CaseInfo:
    from pyoda_time import LocalTime

    f = c["f"]
    a = c["args"]
    ok = True
    if f == "ctor":
        h, m, s, ms = a
        ok = 0 <= h < 24 and 0 <= m < 60 and 0 <= s < 60 and 0 <= ms < 1000
        exp = h * UNITS["hours"] + m * UNITS["minutes"] + s * 10**9 + ms * 10**6
        fn = lambda: LocalTime(h, m, s, ms)  # noqa: E731
    elif f == "hmsmt":
        h, m, s, ms, tk = a
        ok = 0 <= h < 24 and 0 <= m < 60 and 0 <= s < 60 and 0 <= ms < 1000 and 0 <= tk < 10**4
        exp = h * UNITS["hours"] + m * UNITS["minutes"] + s * 10**9 + ms * 10**6 + tk * 100
        fn = lambda: LocalTime.from_hour_minute_second_millisecond_tick(h, m, s, ms, tk)  # noqa: E731
    elif f == "hmst":
        h, m, s, tk = a
        ok = 0 <= h < 24 and 0 <= m < 60 and 0 <= s < 60 and 0 <= tk < 10**7
        exp = h * UNITS["hours"] + m * UNITS["minutes"] + s * 10**9 + tk * 100
        fn = lambda: LocalTime.from_hour_minute_second_tick(h, m, s, tk)  # noqa: E731
    elif f == "hmsn":
        h, m, s, nn = a
        ok = 0 <= h < 24 and 0 <= m < 60 and 0 <= s < 60 and 0 <= nn < 10**9
        exp = h * UNITS["hours"] + m * UNITS["minutes"] + s * 10**9 + nn
        fn = lambda: LocalTime.from_hour_minute_second_nanosecond(h, m, s, nn)  # noqa: E731
    elif f in ("hours", "minutes", "seconds", "milliseconds", "ticks", "nanoseconds"):
        (v,) = a
        u = UNITS[f]
        ok = 0 <= v < DAY // u
        exp = v * u
        fn = lambda: getattr(LocalTime, f"from_{f}_since_midnight")(v)  # noqa: E731
    else:
        raise InvalidCase
    try:
        r = fn()
    except ValueError:
        need(not ok, f"factory-{f}/valid-rejected", f"{a}")
        return CaseInfo(True, "lt_factory:rejected")
    need(ok, f"factory-{f}/invalid-accepted", f"{a} -> {r.nanosecond_of_day}")
    need(r.nanosecond_of_day == exp, f"factory-{f}/value", f"{a}: {r.nanosecond_of_day} != {exp}")
    return CaseInfo(exp >= DAY - UNITS["hours"] or exp == 0, "lt_factory:accepted")


def _k_lt_period(c) -> CaseInfo:
    """LocalTime +/- Period (time units only) in every spelling, and the refusal of date components."""
    from pyoda_time import LocalTime, PeriodBuilder

    ns, p = c["ns"], c["p"]
    if not 0 <= ns < DAY or any(k not in UNITS for k in p if k not in ("years", "months", "weeks", "days")):
        raise InvalidCase
    t = LocalTime.from_nanoseconds_since_midnight(ns)
    period = PeriodBuilder(**p).build()
    has_date = any(p.get(k, 0) for k in ("years", "months", "weeks", "days"))
    forms = {
        "add": (lambda: t + period, lambda: LocalTime.add(t, period), lambda: t.plus(period)),
        "sub": (lambda: t - period, lambda: LocalTime.subtract(t, period), lambda: t.minus(period)),
    }
    delta = sum(p.get(k, 0) * UNITS[k] for k in ("hours", "minutes", "seconds", "milliseconds", "ticks", "nanoseconds"))
    for nm, fns in forms.items():
        exp = (ns + (delta if nm == "add" else -delta)) % DAY
        for j, fn in enumerate(fns):
            try:
                r = fn()
            except ValueError:
                need(has_date, f"lt_period/{nm}{j}/raised-for-time-only-period", f"{p}")
                continue
            need(not has_date, f"lt_period/{nm}{j}/date-component-accepted", f"{p}")
            need(isinstance(r, LocalTime) and r.nanosecond_of_day == exp, f"lt_period/{nm}{j}/value", f"ns={ns} {p}: {r.nanosecond_of_day} != {exp}")
    need(t.nanosecond_of_day == ns, "receiver-mutated")
    return CaseInfo(has_date or (ns + delta) // DAY != 0 or (ns - delta) // DAY != 0, "lt_period")


def _k_lt_adjust(c) -> CaseInfo:
    """Truncating adjusters and the composition / decomposition helpers keep or cut exactly what they say."""
    from pyoda_time import LocalTime, Offset, OffsetTime, TimeAdjusters

    ns, cid, n, off = c["ns"], c["cal"], c["n"], c["off"]
    cal = pyo.cal(cid)
    if not (0 <= ns < DAY and cal._min_days <= n <= cal._max_days and abs(off) <= 64800):
        raise InvalidCase
    t = LocalTime.from_nanoseconds_since_midnight(ns)
    date = pyo.date_from_day(cid, n)
    ldt = t.on(date)
    need(pyo.ldt_total(ldt) == n * DAY + ns and ldt.calendar is cal and ldt == date.at(t), "on(date)")
    check_time_accessors(ldt, ns, "LocalDateTime(on)")
    need(ldt.date == date and ldt.time_of_day == t, "on(date)/parts")
    o = Offset.from_seconds(off)
    ot = t.with_offset(o)
    need(isinstance(ot, OffsetTime) and ot.offset.seconds == off and ot.time_of_day == t and ot == OffsetTime(t, o), "with_offset")
    check_time_accessors(ot, ns, "OffsetTime(with_offset)")
    for nm, unit in (("truncate_to_second", 10**9), ("truncate_to_minute", 60 * 10**9), ("truncate_to_hour", 3600 * 10**9)):
        adj = getattr(TimeAdjusters, nm)
        exp = ns - ns % unit
        need(adj(t).nanosecond_of_day == exp, f"{nm}/LocalTime", f"{ns} -> {adj(t).nanosecond_of_day}")
        need(t.with_time_adjuster(adj).nanosecond_of_day == exp, f"{nm}/with_time_adjuster")
        l2 = ldt.with_time_adjuster(adj)
        need(pyo.ldt_total(l2) == n * DAY + exp and l2.calendar is cal, f"{nm}/LocalDateTime", f"{pyo.ldt_total(l2)}")
        o2 = ot.with_time_adjuster(adj)
        need(o2.nanosecond_of_day == exp and o2.offset.seconds == off, f"{nm}/OffsetTime")
    need(t.nanosecond_of_day == ns and pyo.ldt_total(ldt) == n * DAY + ns, "receiver-mutated")
    return CaseInfo(ns % 10**9 != 0 or cid != "ISO", "lt_adjust")


def _expect_ldt(res_fn, cid: str, total: int, what: str) -> bool:
    """res_fn() must yield the LocalDateTime at model `total` in calendar cid, or raise iff the day is outside it."""
    c = pyo.cal(cid)
    day, nod = divmod(total, DAY)
    inside = c._min_days <= day <= c._max_days
    try:
        r = res_fn()
    except RAISES:
        need(not inside, f"{what}/raised-in-range", f"model day {day} nod {nod}")
        return False
    need(inside, f"{what}/out-of-range-not-raised", f"model day {day}; got {pyo.fmt_date(r.date)}")
    got = pyo.ldt_total(r)
    need(got == total, f"{what}/value", f"expected day {day} nod {nod}, got day {got // DAY} nod {got % DAY}")
    need(r.calendar is c, f"{what}/calendar")
    need(pyo.fields(r.date) == pyo.fields(pyo.date_from_day(cid, day)), f"{what}/date-fields")
    return True


def _k_ldt_plus(c) -> CaseInfo:
    cid, n, nod, unit, amt = c["cal"], c["n"], c["nod"], c["unit"], c["amt"]
    cal = pyo.cal(cid)
    if not (cal._min_days <= n <= cal._max_days and 0 <= nod < DAY) or unit not in LDT_UNITS:
        raise InvalidCase
    ldt = pyo.ldt_from(cid, n, nod)
    base = n * DAY + nod
    need(pyo.ldt_total(ldt) == base, "construction")
    total = base + amt * UNITS[unit]
    ok = _expect_ldt(lambda: getattr(ldt, "plus_" + unit)(amt), cid, total, f"plus_{unit}")
    need(pyo.ldt_total(ldt) == base, "receiver-mutated")
    upd = DAY // UNITS[unit]
    nt = total // DAY != n or not ok or abs(amt) >= 2**63 or (amt != 0 and abs(amt) % upd in (0, 1, upd - 1))
    return CaseInfo(bool(nt), f"ldt_plus:{'in' if ok else 'out'}")


def _k_ldt_period(c) -> CaseInfo:
    from pyoda_time import PeriodBuilder

    cid, n, nod, p = c["cal"], c["n"], c["nod"], c["p"]
    cal = pyo.cal(cid)
    if not (cal._min_days <= n <= cal._max_days and 0 <= nod < DAY):
        raise InvalidCase
    ldt = pyo.ldt_from(cid, n, nod)
    period = PeriodBuilder(**p).build()
    sign = -1 if c.get("minus") else 1
    # date units first-to-last on the date (LocalDate arithmetic itself is C09's subject) ...
    try:
        d = ldt.date.plus_years(sign * p.get("years", 0)).plus_months(sign * p.get("months", 0)).plus_weeks(sign * p.get("weeks", 0))
        base_day = d._days_since_epoch
    except RAISES:
        try:
            r = ldt.minus(period) if sign < 0 else ldt.plus(period)
        except RAISES:
            return CaseInfo(True, "ldt_period:date-part-out")
        raise Mismatch("period/date-part-raised-but-result-returned", f"{p}") from None
    # ... then days and the time units with the model carry
    t = nod
    for k in ("hours", "minutes", "seconds", "milliseconds", "ticks", "nanoseconds"):
        t += sign * p.get(k, 0) * UNITS[k]
    total = (base_day + sign * p.get("days", 0)) * DAY + t
    what = "minus(Period)" if sign < 0 else "plus(Period)"
    ok = _expect_ldt(lambda: ldt.minus(period) if sign < 0 else ldt.plus(period), cid, total, what)
    if ok:
        r2 = (ldt - period) if sign < 0 else (ldt + period)
        need(pyo.ldt_total(r2) == total, what + "/operator")
    signs = {(v > 0) - (v < 0) for v in p.values() if v}
    return CaseInfo(len(signs) > 1 or t // DAY != 0 or not ok, f"ldt_period:{'in' if ok else 'out'}")


# ---------------------------------------------------------------------------------------------------------------


def task_accessor_grid(ctx: Ctx) -> None:
    cnt = 0
    for minute in range(0, 1441):
        for dl in (-1, 0, 1):
            ns = minute * UNITS["minutes"] + dl
            if 0 <= ns < DAY:
                try:
                    lt_accessors(ns)
                except Mismatch as m:
                    ctx.fail("lt_accessors", {"ns": ns}, m.sig, m.msg)
                except Exception as e:  # noqa: BLE001
                    ctx.fail_exc("lt_accessors", {"ns": ns}, e)
                cnt += 1
    ctx.bulk(cnt, cnt, "lt_accessors:grid")
    ctx.sample("lt_accessors", {"ns": 60 * 10**9 - 1}, True)
    # factories on their borders
    for f, mx in (("hours", 24), ("minutes", 1440), ("seconds", 86400), ("milliseconds", 86400 * 10**3), ("ticks", DAY // 100), ("nanoseconds", DAY)):
        for v in (-(2**63), -1, 0, 1, mx - 1, mx, mx + 1, 2**31, 2**63, 10**30):
            ctx.case("lt_factory", {"f": f, "args": [v]})
        # arguments whose nanosecond product wraps around 2^32 / 2^63 / 2^64 / 2^128 into [0, 24 h): must be rejected
        u = UNITS[f]
        for bits in (32, 62, 63, 64, 65, 96, 128):
            for k in (1, 2, 3, 5):
                base = -(-(k << bits) // u)  # smallest v with v*u >= k*2^bits
                for v in (base, base + 1, base + mx // 2, (k << bits), (k << bits) + 1, -(k << bits), (k << bits) + mx - 1):
                    ctx.case("lt_factory", {"f": f, "args": [v]})


def task_hyp(ctx: Ctx, shard: int, n: int) -> None:
    s = sub_seed(ctx.seed, "c10", shard)
    nod = pyo.st_nod()

    def amounts(unit: str):
        upd = DAY // UNITS[unit]
        return st.one_of(
            ints_biased(-(10**7) * upd, 10**7 * upd, (upd, 7 * upd, 365 * upd)),
            st.sampled_from([0, 1, -1, upd, -upd, upd + 1, upd - 1, -upd - 1, -upd + 1, 2**31, -(2**31), 2**63, -(2**63), 2**63 - 1, 10**30, -(10**30), 10**30 * upd + 1]),
            st.integers(-(10**40), 10**40),
        )

    unit_amt = st.sampled_from(sorted(UNITS)).flatmap(lambda u: st.tuples(st.just(u), amounts(u)))
    ldt_unit_amt = st.sampled_from(LDT_UNITS).flatmap(lambda u: st.tuples(st.just(u), amounts(u)))
    comp = st.integers(-1, 61)
    small = st.one_of(st.integers(-3, 3), st.integers(-400, 400), ints_biased(-(10**6), 10**6, (24, 60, 1440, 86400)))
    timeamt = st.one_of(small, ints_biased(-(10**15), 10**15, (10**9, 86400 * 10**3, 864 * 10**9, DAY)))
    period = st.fixed_dictionaries(
        {},
        optional={
            "years": st.integers(-30, 30),
            "months": st.integers(-40, 40),
            "weeks": st.integers(-60, 60),
            "days": small,
            "hours": small,
            "minutes": small,
            "seconds": timeamt,
            "milliseconds": timeamt,
            "ticks": timeamt,
            "nanoseconds": timeamt,
        },
    )

    def body(ns, ua, cd, lua, p, minus, fa):
        unit, amt = ua
        ctx.case("lt_accessors", {"ns": ns})
        ctx.case("lt_plus", {"ns": ns, "unit": unit, "n": amt})
        cid, n_ = cd
        lu, lamt = lua
        ctx.case("ldt_plus", {"cal": cid, "n": n_, "nod": ns, "unit": lu, "amt": lamt})
        # an amount sized to land near the calendar's ends
        c = pyo.cal(cid)
        upd = DAY // UNITS[lu]
        edge = ((c._max_days if lamt >= 0 else c._min_days) - n_) * upd + (lamt % (3 * upd)) - upd
        ctx.case("ldt_plus", {"cal": cid, "n": n_, "nod": ns, "unit": lu, "amt": edge})
        ctx.case("ldt_period", {"cal": cid, "n": n_, "nod": ns, "p": p, "minus": minus})
        ctx.case("lt_factory", fa)
        tp = {k: v for k, v in p.items() if k in UNITS and k in ("hours", "minutes", "seconds", "milliseconds", "ticks", "nanoseconds")}
        ctx.case("lt_period", {"ns": ns, "p": tp})
        if amt % 5 == 0:
            ctx.case("lt_period", {"ns": ns, "p": p})  # usually with date components: must be refused
        ctx.case("lt_adjust", {"ns": ns, "cal": cid, "n": n_, "off": (amt % 129601) - 64800})

    fa = st.one_of(
        st.tuples(st.integers(-1, 24), comp, comp, st.integers(-1, 1000)).map(lambda t: {"f": "ctor", "args": list(t)}),
        st.tuples(st.integers(-1, 24), comp, comp, st.integers(-1, 1000), st.integers(-1, 10**4)).map(lambda t: {"f": "hmsmt", "args": list(t)}),
        st.tuples(st.integers(-1, 24), comp, comp, ints_biased(-1, 10**7, (10**6,))).map(lambda t: {"f": "hmst", "args": list(t)}),
        st.tuples(st.integers(-1, 24), comp, comp, ints_biased(-1, 10**9, (10**6, 10**8))).map(lambda t: {"f": "hmsn", "args": list(t)}),
    )
    run_hypothesis(
        body,
        dict(ns=nod, ua=unit_amt, cd=pyo.st_cal_day(), lua=ldt_unit_amt, p=period, minus=st.booleans(), fa=fa),
        n,
        s,
    )


def tasks(tier: str, seed: int) -> list[Task]:
    mult = 1 if tier == "quick" else 20
    t = [Task("task_hyp", {"shard": i, "n": 2500 * mult}, f"hyp-{i}") for i in range(15)]
    t.append(Task("task_accessor_grid", {}, "grid"))
    return t
