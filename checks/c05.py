"""C05 - local date-times map to exactly the instants whose local rendering is that value.

Oracle: brute-force pre-image over the zone's complete interval list taken from the independent .nzd interpreter
(ref/tzrules.py), not from the library's guess-and-probe algorithm.
"""

from __future__ import annotations

import bisect
from functools import lru_cache

from hypothesis import strategies as st

from checks import c06
from harness import pyo
from harness import zones as Z
from harness.core import CaseInfo, Ctx, InvalidCase, Mismatch, Task, sub_seed
from harness.gen import ints_biased, run_hypothesis

PROPERTY = "C05"
LEVEL = "exploration"
RULE = (
    "(zone, local date-time) with local values generated from the zone's transitions: for every transition T with "
    "offsets (o1, o2): T+o1+d and T+o2+d for d in {0, +/-1ns, +/-1s, +/-1h, +/-|o2-o1|/2, +/-1day}; quick covers all "
    "stored transitions of every canonical zone plus sampled tail years, thorough every transition through 2100, every 10th year after that and the last five years; "
    "plus Hypothesis-generated uniform local date-times, fixed zones and non-ISO calendars; every stock resolver "
    "(all 12 ambiguous x skipped combinations at gaps/overlaps) through resolve_local and in_zone; start-of-day "
    "around every transition, also in rotating non-ISO calendars. Oracle = set of "
    "intervals iv with iv.start+wall <= L < iv.end+wall. Non-trivial: L within one day of a transition or count != 1; "
    "distinct = (zone, L) by construction per transition probe, case hash otherwise."
)
ASSUMPTIONS = [
    "the interval list comes from the independent reference (C06 shows the library agrees with it)",
    "local values within 19 h of the ends of time are only checked for 'returns or raises' and round trip",
]

DAY = Z.DAY
SEC = Z.SEC
SAFE_LO = Z.INST_MIN + 19 * 3600 * SEC
SAFE_HI = Z.INST_MAX - 19 * 3600 * SEC


def exhaustive(tier: str) -> bool:
    return False


def need(cond: bool, sig: str, msg: str = "") -> None:
    if not cond:
        raise Mismatch(sig, msg)


def eval_case(kind: str, c: dict) -> CaseInfo:
    return globals()["_k_" + kind](c)


@lru_cache(maxsize=4096)
def zone_intervals(zid: str):
    """(intervals, local_starts) for a zone id: reference intervals for provider ids, one interval for fixed zones."""
    if zid.startswith("fixed:"):
        s = int(zid[6:])
        ivs = [(Z.BEFORE_MIN, Z.AFTER_MAX, "", s, 0)]
    else:
        ivs = c06.ref_intervals("bundled", c06.canonical_of("bundled", zid))
    starts = [iv[0] for iv in ivs]
    return ivs, starts


def lstart(iv) -> int:
    return -(10**40) if iv[0] == Z.BEFORE_MIN else iv[0] + iv[3] * SEC


def lend(iv) -> int:
    return 10**40 if iv[1] == Z.AFTER_MAX else iv[1] + iv[3] * SEC


def candidates(zid: str, L: int):
    ivs, starts = zone_intervals(zid)
    i0 = max(0, bisect.bisect_right(starts, L - 40 * 3600 * SEC) - 1)
    i1 = min(len(ivs), bisect.bisect_right(starts, L + 40 * 3600 * SEC) + 1)
    return ivs, i0, i1


def same_iv(lib_iv, ref_iv, zid: str) -> bool:
    t = Z.iv_tuple(lib_iv)
    if zid.startswith("fixed:"):
        return t[:2] == ref_iv[:2] and t[3:] == ref_iv[3:]
    return t[:2] + t[3:] == ref_iv[:2] + ref_iv[3:]


def ldt_of(cid: str, L: int):
    return pyo.ldt_from(cid, L // DAY, L % DAY)


def _k_map(c) -> CaseInfo:
    from pyoda_time import AmbiguousTimeError, Offset, SkippedTimeError, ZonedDateTime

    zid, L, cid = c["zone"], c["L"], c.get("cal", "ISO")
    cal = pyo.cal(cid)
    if not cal._min_days <= L // DAY <= cal._max_days or not SAFE_LO <= L <= SAFE_HI:
        raise InvalidCase
    z = Z.zone(zid)
    ivs, i0, i1 = candidates(zid, L)
    matches = [iv for iv in ivs[i0:i1] if lstart(iv) <= L < lend(iv)]
    ldt = ldt_of(cid, L)
    m = z.map_local(ldt)
    w = "map_local"
    need(m.count == len(matches) and len(matches) <= 2, f"{w}/count", f"{zid} L={L}: count {m.count}, expected {len(matches)} ({matches})")
    need(m.zone is z and m.local_date_time == ldt, f"{w}/echo")
    near = any(abs(L - lstart(iv)) <= DAY or abs(L - lend(iv)) <= DAY for iv in ivs[i0:i1])

    def chk_zdt(zdt, iv, what: str) -> None:
        inst_exp = L - iv[3] * SEC
        need(Z.ns(zdt.to_instant()) == inst_exp, f"{what}/instant", f"{zid} L={L}: {Z.ns(zdt.to_instant())} != {inst_exp}")
        need(zdt.offset.seconds == iv[3] and zdt.zone is z and zdt.calendar is cal, f"{what}/offset-zone-calendar", f"{zid} L={L}")
        need(pyo.ldt_total(zdt.local_date_time) == L, f"{what}/local")

    if len(matches) == 1:
        iv = matches[0]
        chk_zdt(m.single(), iv, f"{w}/single")
        chk_zdt(m.first(), iv, f"{w}/first")
        chk_zdt(m.last(), iv, f"{w}/last")
        need(same_iv(m.early_interval, iv, zid) and same_iv(m.late_interval, iv, zid), f"{w}/intervals-unambiguous", f"{zid} L={L}")
        chk_zdt(z.at_strictly(ldt), iv, "at_strictly")
        chk_zdt(z.at_leniently(ldt), iv, "at_leniently")
        chk_zdt(ldt.in_zone_strictly(z), iv, "in_zone_strictly")
        chk_zdt(ldt.in_zone_leniently(z), iv, "in_zone_leniently")
    elif len(matches) == 2:
        e, l = matches
        need(e[0] < l[0], "oracle-order")
        chk_zdt(m.first(), e, f"{w}/first-ambiguous")
        chk_zdt(m.last(), l, f"{w}/last-ambiguous")
        need(same_iv(m.early_interval, e, zid) and same_iv(m.late_interval, l, zid), f"{w}/intervals-ambiguous", f"{zid} L={L}")
        for fn, nm in ((m.single, "single"), (lambda: z.at_strictly(ldt), "at_strictly"), (lambda: ldt.in_zone_strictly(z), "in_zone_strictly")):
            try:
                fn()
            except AmbiguousTimeError:
                pass
            else:
                raise Mismatch(f"{nm}/ambiguous-not-raised", f"{zid} L={L}")
        chk_zdt(z.at_leniently(ldt), e, "at_leniently/ambiguous-earlier")
        chk_zdt(ldt.in_zone_leniently(z), e, "in_zone_leniently/ambiguous-earlier")
    else:
        before = [iv for iv in ivs[i0:i1] if lend(iv) <= L]
        after = [iv for iv in ivs[i0:i1] if lstart(iv) > L]
        need(before and after, "oracle-gap", f"{zid} L={L}")
        b, a = before[-1], after[0]
        need(b[1] == a[0], "oracle-gap-adjacent")
        need(same_iv(m.early_interval, b, zid) and same_iv(m.late_interval, a, zid), f"{w}/intervals-gap", f"{zid} L={L}: early {Z.iv_tuple(m.early_interval)} late {Z.iv_tuple(m.late_interval)} expected {b} / {a}")
        for fn, nm in ((m.single, "single"), (m.first, "first"), (m.last, "last"), (lambda: z.at_strictly(ldt), "at_strictly"), (lambda: ldt.in_zone_strictly(z), "in_zone_strictly")):
            try:
                fn()
            except SkippedTimeError:
                pass
            else:
                raise Mismatch(f"{nm}/skipped-not-raised", f"{zid} L={L}")
        # lenient: shifted forward by the length of the gap
        for r, nm in ((z.at_leniently(ldt), "at_leniently"), (ldt.in_zone_leniently(z), "in_zone_leniently")):
            need(Z.ns(r.to_instant()) == L - b[3] * SEC, f"{nm}/gap-instant", f"{zid} L={L}: {Z.ns(r.to_instant())} != {L - b[3] * SEC}")
            need(r.offset.seconds == a[3] and pyo.ldt_total(r.local_date_time) == L + (a[3] - b[3]) * SEC and r.calendar is cal and r.zone is z, f"{nm}/gap-shift", f"{zid} L={L}")
    # every other stock resolver, through both spellings (zone.resolve_local / ldt.in_zone)
    from pyoda_time.time_zones import Resolvers

    amb = {"return_earlier": Resolvers.return_earlier, "return_later": Resolvers.return_later, "throw_when_ambiguous": Resolvers.throw_when_ambiguous}
    skp = {
        "return_end_of_interval_before": Resolvers.return_end_of_interval_before,
        "return_start_of_interval_after": Resolvers.return_start_of_interval_after,
        "return_forward_shifted": Resolvers.return_forward_shifted,
        "throw_when_skipped": Resolvers.throw_when_skipped,
    }
    pick = (L // 7) % 3, (L // 11) % 4
    combos = [(list(amb)[pick[0]], list(skp)[pick[1]])] if len(matches) == 1 else [(a_, s_) for a_ in amb for s_ in skp]
    for an, sn in combos:
        resolver = Resolvers.create_mapping_resolver(amb[an], skp[sn])
        for call, cn in ((lambda: z.resolve_local(ldt, resolver), "resolve_local"), (lambda: ldt.in_zone(z, resolver), "in_zone")):
            wh = f"{cn}({an},{sn})"
            try:
                r = call()
            except AmbiguousTimeError:
                need(len(matches) == 2 and an == "throw_when_ambiguous", f"{wh}/raised-ambiguous", f"{zid} L={L}")
                continue
            except SkippedTimeError:
                need(len(matches) == 0 and sn == "throw_when_skipped", f"{wh}/raised-skipped", f"{zid} L={L}")
                continue
            need(r.zone is z and r.calendar is cal, f"{wh}/zone-calendar")
            got = Z.ns(r.to_instant())
            if len(matches) == 1:
                exp_i = L - matches[0][3] * SEC
            elif len(matches) == 2:
                need(an != "throw_when_ambiguous", f"{wh}/ambiguous-not-raised", f"{zid} L={L}")
                exp_i = L - (matches[0] if an == "return_earlier" else matches[1])[3] * SEC
            else:
                need(sn != "throw_when_skipped", f"{wh}/skipped-not-raised", f"{zid} L={L}")
                exp_i = {"return_end_of_interval_before": b[1] - 1, "return_start_of_interval_after": a[0], "return_forward_shifted": L - b[3] * SEC}[sn]
            need(got == exp_i, f"{wh}/instant", f"{zid} L={L}: {got} != {exp_i}")
            need(r.offset.seconds == z.get_utc_offset(r.to_instant()).seconds, f"{wh}/offset")
    # explicit-offset constructor accepts exactly the matching offsets
    valid = {iv[3] for iv in matches}
    trial = set(valid) | {iv[3] for iv in ivs[i0:i1]} | {next(iter(valid), 0) + 3600, 0}
    for off in trial:
        if abs(off) > 64800:
            continue
        try:
            zd = ZonedDateTime(local_date_time=ldt, zone=z, offset=Offset.from_seconds(off))
        except ValueError:
            need(off not in valid, "ctor(ldt,zone,offset)/valid-offset-rejected", f"{zid} L={L} offset {off}")
        else:
            need(off in valid, "ctor(ldt,zone,offset)/invalid-offset-accepted", f"{zid} L={L} offset {off}")
            need(Z.ns(zd.to_instant()) == L - off * SEC, "ctor(ldt,zone,offset)/instant")
    return CaseInfo(near or len(matches) != 1, f"map:{len(matches)}")


def _k_roundtrip(c) -> CaseInfo:
    """An instant rendered in a zone and mapped back recovers that instant among the results."""
    zid, i, cid = c["zone"], c["i"], c.get("cal", "ISO")
    if not Z.INST_MIN <= i <= Z.INST_MAX:
        raise InvalidCase
    z = Z.zone(zid)
    cal = pyo.cal(cid)
    off = z.get_utc_offset(Z.inst(i)).seconds
    if not cal._min_days <= (i + off * SEC) // DAY <= cal._max_days:
        raise InvalidCase
    zdt = Z.inst(i).in_zone(z, cal)
    m = z.map_local(zdt.local_date_time)
    need(m.count in (1, 2), "roundtrip/count", f"{zid} i={i}: count {m.count}")
    got = {Z.ns(m.first().to_instant()), Z.ns(m.last().to_instant())}
    need(i in got, "roundtrip/instant-not-recovered", f"{zid} i={i}: {got}")
    return CaseInfo(m.count == 2 or not SAFE_LO <= i <= SAFE_HI, "roundtrip")


def _k_sod(c) -> CaseInfo:
    from pyoda_time import SkippedTimeError

    zid, n, cid = c["zone"], c["n"], c.get("cal", "ISO")
    cal = pyo.cal(cid)
    if not cal._min_days <= n <= cal._max_days or not SAFE_LO <= n * DAY <= SAFE_HI - DAY:
        raise InvalidCase
    z = Z.zone(zid)
    d0 = n * DAY
    ivs, i0, i1 = candidates(zid, d0 + DAY // 2)
    best = None
    for iv in ivs[i0:i1]:
        s = Z.INST_MIN if iv[0] == Z.BEFORE_MIN else iv[0]
        e = Z.INST_MAX + 1 if iv[1] == Z.AFTER_MAX else iv[1]
        t = max(s, d0 - iv[3] * SEC)
        if t < e and t + iv[3] * SEC < d0 + DAY:
            best = t if best is None else min(best, t)
    date = pyo.date_from_day(cid, n)
    try:
        r = z.at_start_of_day(date)
    except SkippedTimeError:
        need(best is None, "at_start_of_day/raised-but-day-exists", f"{zid} day {n}: earliest instant {best}")
        return CaseInfo(True, "sod:skipped-day")
    need(best is not None, "at_start_of_day/whole-day-skipped-not-raised", f"{zid} day {n}")
    need(Z.ns(r.to_instant()) == best, "at_start_of_day/instant", f"{zid} day {n}: {Z.ns(r.to_instant())} != {best}")
    need(r.date == date and r.zone is z and r.calendar is cal, "at_start_of_day/date-zone-calendar", f"{zid} day {n}")
    r2 = date.at_start_of_day_in_zone(z)
    need(r2 == r, "at_start_of_day_in_zone")
    return CaseInfo(best != d0 - z.get_utc_offset(Z.inst(best)).seconds * SEC or r.nanosecond_of_day != 0 if hasattr(r, "nanosecond_of_day") else True, "sod")


# ---------------------------------------------------------------------------------------------------------------


def transition_probes(iv_prev, iv_next) -> list[int]:
    T = iv_next[0]
    o1, o2 = iv_prev[3], iv_next[3]
    half = abs(o2 - o1) * SEC // 2
    out = set()
    for base in (T + o1 * SEC, T + o2 * SEC):
        for d in (0, 1, -1, SEC, -SEC, 3600 * SEC, -3600 * SEC, half, -half, DAY, -DAY):
            out.add(base + d)
    return sorted(out)


def task_transitions(ctx: Ctx, ids: list[str], thorough: bool, years: list[int]) -> None:
    ev = nt = 0
    cal_ids = pyo.cal_ids()
    for zid in ids:
        if ctx.should_abort():
            break
        ivs, starts = zone_intervals(zid)
        rz = c06.ref_db("bundled").zones[c06.canonical_of("bundled", zid)]
        nstored = len(rz.periods) if rz.kind != "fixed" else 1
        idxs = list(range(1, min(len(ivs), nstored + 1)))
        if len(ivs) > nstored:
            if thorough:
                # every transition through 2100, then every 10th year (seed-chosen residue: all weekday alignments of
                # the yearly rules are met) and the last five years
                r = sub_seed(ctx.seed, "c05t", zid) % 10
                cut = bisect.bisect_left(starts, Z.year_start_ns(2101))
                idxs = list(range(1, min(len(ivs), cut)))
                for y in [yy for yy in range(2101, 9995) if yy % 10 == r] + list(range(9995, 10000)):
                    a = bisect.bisect_left(starts, Z.year_start_ns(y))
                    b = bisect.bisect_left(starts, Z.year_start_ns(y + 1) if y < 9999 else Z.INST_MAX)
                    idxs += list(range(max(1, a), b))
                idxs = sorted(set(idxs))
            else:
                for y in years:
                    a = bisect.bisect_left(starts, Z.year_start_ns(y))
                    b = bisect.bisect_left(starts, Z.year_start_ns(y + 1) if y < 9999 else Z.INST_MAX)
                    idxs += list(range(max(1, a), b))
                idxs = sorted(set(idxs))
        for i in idxs:
            for L in transition_probes(ivs[i - 1], ivs[i]):
                if not SAFE_LO <= L <= SAFE_HI:
                    continue
                case = {"zone": zid, "L": L}
                try:
                    info = _k_map(case)
                    if info.nontrivial:
                        nt += 1
                    ctx.labels[info.label] += 1
                except Mismatch as m:
                    ctx.fail("map", case, m.sig, m.msg)
                except InvalidCase:
                    pass
                except Exception as e:  # noqa: BLE001
                    ctx.fail_exc("map", case, e)
                ev += 1
            # start of day around the transition
            for dn in {(ivs[i][0] + ivs[i][3] * SEC) // DAY, (ivs[i][0] + ivs[i - 1][3] * SEC) // DAY}:
                ctx.case("sod", {"zone": zid, "n": dn})
                ctx.case("sod", {"zone": zid, "n": dn + 1})
                # the same days in another calendar (rotating through all of them): the answer is a property of the
                # physical day, whatever calendar the date is expressed in
                cid = cal_ids[(i + len(zid)) % len(cal_ids)]
                cc = pyo.cal(cid)
                if cid != "ISO" and cc._min_days <= dn and dn + 1 <= cc._max_days:
                    ctx.case("sod", {"zone": zid, "n": dn, "cal": cid})
                    ctx.case("sod", {"zone": zid, "n": dn + 1, "cal": cid})
    ctx.bulk(ev, nt, None)
    ctx.sample("map", {"zone": ids[0], "L": 0}, True)


def task_hyp(ctx: Ctx, shard: int, n: int) -> None:
    s = sub_seed(ctx.seed, "c05", shard)
    ids = Z.all_ids()
    fixed = ["fixed:0", "fixed:3600", "fixed:-64800", "fixed:64800", "fixed:20700", "fixed:-1"]
    local = st.one_of(
        ints_biased(SAFE_LO, SAFE_HI, (SEC, 3600 * SEC, DAY)),
        ints_biased(Z.year_start_ns(1850), Z.year_start_ns(2040), (3600 * SEC, DAY)),
    )
    edge = st.one_of(ints_biased(Z.INST_MIN, SAFE_LO + DAY, (SEC,)), ints_biased(SAFE_HI - DAY, Z.INST_MAX, (SEC,)))

    def body(zi, L, e, cid, fz):
        zid = ids[zi % len(ids)] if fz >= len(fixed) else fixed[fz]
        ctx.case("map", {"zone": zid, "L": L})
        cal = pyo.cal(cid)
        if cal._min_days <= L // DAY <= cal._max_days:
            ctx.case("map", {"zone": zid, "L": L, "cal": cid})
            ctx.case("sod", {"zone": zid, "n": L // DAY, "cal": cid})
        ctx.case("roundtrip", {"zone": zid, "i": L})
        ctx.case("roundtrip", {"zone": zid, "i": e})
        ctx.case("roundtrip", {"zone": zid, "i": L, "cal": cid})
        ctx.case("sod", {"zone": zid, "n": L // DAY})

    run_hypothesis(
        body,
        dict(zi=st.integers(0, 10**6), L=local, e=edge, cid=st.sampled_from(pyo.cal_ids()), fz=st.integers(0, 40)),
        n,
        s,
    )


def tasks(tier: str, seed: int) -> list[Task]:
    thorough = tier == "thorough"
    ids = list(Z.canonical_ids())
    db = c06.ref_db("bundled")
    ids.sort(key=lambda i: (db.zones[i].tail is None, i))
    years = sorted({2037, 2038, 2039, 2040, 9997, 9998} | {2041 + sub_seed(seed, "c05y", i) % 7940 for i in range(12)})
    k = 48 if thorough else 16
    out = [Task("task_transitions", {"ids": ids[j::k], "thorough": thorough, "years": years}, f"trans-{j}") for j in range(k)]
    for j in range(6):
        out.append(Task("task_hyp", {"shard": j, "n": 500 if not thorough else 10000}, f"hyp-{j}"))
    return out
