"""C02 - calendar dates denote the physical day their published definitions prescribe.

Oracle: ref/calendars.py (independent implementations of the published algorithms from the documented epochs)
and, for ISO years 1-9999, datetime.date. Compared through LocalDate construction, with_calendar (both ways),
the calendar's table queries and day_of_week.
"""

from __future__ import annotations

import datetime as _dt

from harness.core import CaseInfo, Ctx, InvalidCase, Mismatch, Task, sub_seed
from ref import calendars as rc

PROPERTY = "C02"
LEVEL = "exploration"
RULE = (
    "For each arithmetic calendar id (ISO, Gregorian, Julian, Coptic, 8 Hijri, 2 Hebrew, Persian Simple, Persian "
    "Arithmetic >= 475): every year's tables and every month start are compared with an independent reference "
    "implementation, ascending and again in descending order around every 1024-year cache-slot boundary; day level: ISO vs datetime.date over all 3652059 ordinals (both tiers), other calendars over a "
    "seed-offset stride-97 day sample (quick) or every day (thorough). Non-trivial = first/last day of a year or "
    "month, a date in a leap year, or a Hebrew year with irregular Heshvan/Kislev; distinct by construction."
)
ASSUMPTIONS = [
    "reference algorithms: Reingold & Dershowitz fixed-day arithmetic; epochs and leap sets from the calendars' docstrings",
    "Persian Arithmetic is asserted from year 475 only (the anchor of the 2820-year cycle), as the property states",
]


def exhaustive(tier: str) -> bool:
    return tier == "thorough"


def need(cond: bool, sig: str, msg: str = "") -> None:
    if not cond:
        raise Mismatch(sig, msg)


def arithmetic_ids() -> list[str]:
    from pyoda_time import CalendarSystem

    return [i for i in CalendarSystem.ids if rc.reference_for(i) is not None]


def _cal(cid: str):
    from pyoda_time import CalendarSystem

    return CalendarSystem.for_id(cid)


def asserted_min_year(cid: str, cal) -> int:
    return max(cal.min_year, 475) if cid == "Persian Arithmetic" else cal.min_year


GREG = rc.Gregorian()


def iso_fields(n: int) -> tuple[int, int, int]:
    return GREG.from_days(n)


def eval_case(kind: str, c: dict) -> CaseInfo:
    return globals()["_k_" + kind](c)


def check_date(cid: str, cal, ref, n: int, y: int, m: int, d: int) -> None:
    """Day number n is (y, m, d) in the reference; compare pyoda through every conversion."""
    from pyoda_time import CalendarSystem, LocalDate

    iso = CalendarSystem.iso
    try:
        ld = LocalDate(y, m, d, cal)
    except ValueError as e:
        raise Mismatch(f"ref-date-rejected/{cid}", f"{(y, m, d)} (day {n}): {e}") from None
    need(ld._days_since_epoch == n, f"date->day/{cid}", f"{(y, m, d)} -> {ld._days_since_epoch}, reference {n}")
    gy, gm, gd = iso_fields(n)
    g = ld.with_calendar(iso)
    need((g.year, g.month, g.day) == (gy, gm, gd), f"to-iso/{cid}", f"{(y, m, d)} -> ISO {(g.year, g.month, g.day)}, reference {(gy, gm, gd)}")
    back = LocalDate(gy, gm, gd).with_calendar(cal)
    need((back.year, back.month, back.day) == (y, m, d), f"from-iso/{cid}", f"ISO {(gy, gm, gd)} -> {(back.year, back.month, back.day)}, reference {(y, m, d)}")
    need(int(ld.day_of_week) == (n + 3) % 7 + 1, f"day-of-week/{cid}", f"{(y, m, d)} day {n}: {ld.day_of_week}")


def _k_date(c) -> CaseInfo:
    cid = c["cal"]
    cal = _cal(cid)
    ref = rc.reference_for(cid)
    n = c["n"]
    if ref is None or not cal._min_days <= n <= cal._max_days:
        raise InvalidCase
    y, m, d = ref.from_days(n)
    if y < asserted_min_year(cid, cal):
        raise InvalidCase
    check_date(cid, cal, ref, n, y, m, d)
    return CaseInfo(True, "date")


def _k_year(c) -> CaseInfo:
    from pyoda_time import LocalDate

    cid = c["cal"]
    cal = _cal(cid)
    ref = rc.reference_for(cid)
    y = c["y"]
    if ref is None or not asserted_min_year(cid, cal) <= y <= cal.max_year:
        raise InvalidCase
    need(cal.is_leap_year(y) == ref.is_leap(y), f"is_leap_year/{cid}", f"year {y}: {cal.is_leap_year(y)}")
    need(cal.get_months_in_year(y) == ref.months_in_year(y), f"months_in_year/{cid}", f"year {y}: {cal.get_months_in_year(y)} vs {ref.months_in_year(y)}")
    need(cal.get_days_in_year(y) == ref.days_in_year(y), f"days_in_year/{cid}", f"year {y}: {cal.get_days_in_year(y)} vs {ref.days_in_year(y)}")
    n = ref.start_of_year(y)
    for m in ref.month_order(y):
        dim = ref.days_in_month(y, m)
        need(cal.get_days_in_month(y, m) == dim, f"days_in_month/{cid}", f"{(y, m)}: {cal.get_days_in_month(y, m)} vs {dim}")
        check_date(cid, cal, ref, n, y, m, 1)
        if c.get("ends", True):
            check_date(cid, cal, ref, n + dim - 1, y, m, dim)
        n += dim
    if cid.startswith("Hebrew"):
        # civil <-> scriptural numbering of the same physical month
        other = _cal("Hebrew Scriptural" if cid == "Hebrew Civil" else "Hebrew Civil")
        h = rc.Hebrew("Civil")
        for cm in range(1, h.months_in_year(y) + 1):
            sm = h.civil_to_scriptural(y, cm)
            a = LocalDate(y, cm if cid == "Hebrew Civil" else sm, 1, cal).with_calendar(other)
            exp = sm if cid == "Hebrew Civil" else cm
            need((a.year, a.month, a.day) == (y, exp, 1), f"hebrew-numbering/{cid}", f"year {y} civil {cm} / scriptural {sm}: got {(a.year, a.month, a.day)}")
    return CaseInfo(True, "year:leap" if ref.is_leap(y) else "year:common")


def _k_iso_ordinal(c) -> CaseInfo:
    o = c["o"]
    if not 1 <= o <= 3652059:
        raise InvalidCase
    check_iso_ordinal(_cal("ISO"), _cal("Gregorian"), o)
    return CaseInfo(True, "iso")


def check_iso_ordinal(iso, greg, o: int) -> None:
    from pyoda_time import LocalDate

    sd = _dt.date.fromordinal(o)
    n = o - 719163
    ld = LocalDate(sd.year, sd.month, sd.day)
    need(ld._days_since_epoch == n, "iso/date->day", f"{sd} -> {ld._days_since_epoch} expected {n}")
    bk = LocalDate._ctor(days_since_epoch=n)
    need((bk.year, bk.month, bk.day) == (sd.year, sd.month, sd.day), "iso/day->date", f"day {n} -> {(bk.year, bk.month, bk.day)} expected {sd}")
    need(int(ld.day_of_week) == sd.isoweekday(), "iso/day_of_week", f"{sd}: {ld.day_of_week}")
    need(ld.day_of_year == sd.timetuple().tm_yday if sd.day == 1 else True, "iso/day_of_year", f"{sd}")
    gd = ld.with_calendar(greg)
    need((gd.year, gd.month, gd.day) == (sd.year, sd.month, sd.day), "gregorian-equals-iso", f"{sd}")


# ---------------------------------------------------------------------------------------------------------------


def task_iso(ctx: Ctx, lo: int, hi: int) -> None:
    iso, greg = _cal("ISO"), _cal("Gregorian")
    nt = 0
    for o in range(lo, hi):
        try:
            check_iso_ordinal(iso, greg, o)
        except Mismatch as m:
            ctx.fail("iso_ordinal", {"o": o}, m.sig, m.msg)
        except Exception as e:  # noqa: BLE001
            ctx.fail_exc("iso_ordinal", {"o": o}, e)
        sd = _dt.date.fromordinal(o)
        if sd.day <= 1 or sd.day >= 28 or (sd.year % 4 == 0):
            nt += 1
    ctx.bulk(hi - lo, nt, "iso-vs-datetime")
    ctx.sample("iso_ordinal", {"o": lo}, True)


def task_years(ctx: Ctx, cal: str, ylo: int, yhi: int, ends: bool = True) -> None:
    for y in range(ylo, yhi + 1):
        ctx.case("year", {"cal": cal, "y": y, "ends": ends})


def task_years_desc(ctx: Ctx, cal: str, amin: int, ymax: int, ends: bool = False) -> None:
    """The same answers must come out when years are visited in descending order (calculators memoise per year in
    1024-slot tables, so a year is then computed while its slot and its neighbours' slots hold later years): the
    years around every 1024-year slot boundary plus a seed-offset stride, over the whole calendar."""
    off = sub_seed(ctx.seed, "c02desc", cal) % 29
    for y in range(ymax, amin - 1, -1):
        if (y & 1023) in (1021, 1022, 1023, 0, 1, 2) or (y - off) % 29 == 0:
            ctx.case("year", {"cal": cal, "y": y, "ends": ends})


def task_days(ctx: Ctx, cal: str, lo: int, hi: int, step: int, offset: int) -> None:
    """Day-level comparison; the reference cursor advances incrementally when step == 1."""
    c = _cal(cal)
    ref = rc.reference_for(cal)
    amin = asserted_min_year(cal, c)
    nt = 0
    total = 0
    if step == 1:
        n = lo
        y, m, d = ref.from_days(n)
        order = ref.month_order(y)
        dim = ref.days_in_month(y, m)
        leap = ref.is_leap(y)
        while n <= hi:
            if y >= amin:
                try:
                    check_date(cal, c, ref, n, y, m, d)
                except Mismatch as mm:
                    ctx.fail("date", {"cal": cal, "n": n}, mm.sig, mm.msg)
                except Exception as e:  # noqa: BLE001
                    ctx.fail_exc("date", {"cal": cal, "n": n}, e)
                total += 1
                if d <= 1 or d >= dim or leap:
                    nt += 1
            n += 1
            d += 1
            if d > dim:
                d = 1
                i = order.index(m) + 1
                if i >= len(order):
                    y += 1
                    order = ref.month_order(y)
                    leap = ref.is_leap(y)
                    m = order[0]
                else:
                    m = order[i]
                dim = ref.days_in_month(y, m)
    else:
        for n in range(lo + offset % step, hi + 1, step):
            y, m, d = ref.from_days(n)
            if y < amin:
                continue
            try:
                check_date(cal, c, ref, n, y, m, d)
            except Mismatch as mm:
                ctx.fail("date", {"cal": cal, "n": n}, mm.sig, mm.msg)
            except Exception as e:  # noqa: BLE001
                ctx.fail_exc("date", {"cal": cal, "n": n}, e)
            total += 1
            if d <= 1 or d >= ref.days_in_month(y, m) or ref.is_leap(y):
                nt += 1
    ctx.bulk(total, nt, f"days:{cal}")
    ctx.sample("date", {"cal": cal, "n": lo, "to": hi, "step": step}, True)


def tasks(tier: str, seed: int) -> list[Task]:
    rc.self_test()
    out: list[Task] = []
    n_iso = 3652059
    k = 48
    size = n_iso // k + 1
    for i in range(k):
        out.append(Task("task_iso", {"lo": 1 + i * size, "hi": min(n_iso + 1, 1 + (i + 1) * size)}, f"iso-{i}"))
    for cid in arithmetic_ids():
        c = _cal(cid)
        amin = asserted_min_year(cid, c)
        ny = c.max_year - amin + 1
        parts = 10
        ysz = (ny + parts - 1) // parts
        for p in range(parts):
            a = amin + p * ysz
            b = min(c.max_year, a + ysz - 1)
            if a <= b:
                out.append(Task("task_years", {"cal": cid, "ylo": a, "yhi": b, "ends": tier == "thorough"}, f"years-{cid}-{p}"))
        out.append(Task("task_years_desc", {"cal": cid, "amin": amin, "ymax": c.max_year, "ends": tier == "thorough"}, f"years-desc-{cid}"))
        lo, hi = c._min_days, c._max_days
        if tier == "thorough":
            parts = 12
            sz = (hi - lo) // parts + 1
            for p in range(parts):
                a = lo + p * sz
                b = min(hi, a + sz - 1)
                out.append(Task("task_days", {"cal": cid, "lo": a, "hi": b, "step": 1, "offset": 0}, f"days-{cid}-{p}"))
        else:
            off = sub_seed(seed, "c02", cid) % 97
            parts = 2
            sz = (hi - lo) // parts + 1
            for p in range(parts):
                a = lo + p * sz
                b = min(hi, a + sz - 1)
                out.append(Task("task_days", {"cal": cid, "lo": a, "hi": b, "step": 97, "offset": off}, f"days-{cid}-{p}"))
    return out
