"""C06 - zones behave exactly as the bundled tz database bytes say.

Oracle: ref/nzd.py + ref/tzrules.py, an independent interpreter of the .nzd format and of the yearly rules.
"""

from __future__ import annotations

import os
from functools import lru_cache

from harness import bootstrap
from harness import zones as Z
from harness.core import CaseInfo, Ctx, InvalidCase, Mismatch, Task, sub_seed
from ref import nzd, tzrules

PROPERTY = "C06"
LEVEL = "exploration"
RULE = (
    "Differential against an independent .nzd interpreter for both real files (bundled Tzdb.nzd through the built-in "
    "provider; tests/test_data/Tzdb2013bFromNodaTime1.1.nzd through TzdbDateTimeZoneSource.from_stream): quick = "
    "every stored period and the rule-generated transitions of sampled years (first tail years, 2037-2040, "
    "9990-9999, 40 seed-chosen); thorough = every interval through year 9999 (exhaustive). Also id list, aliases, "
    "version, validate(), fixed-offset ids (all 129601 offsets in thorough) and near-miss ids. Non-trivial = a "
    "rule-generated transition or a stored period with a non-marker start; distinct by construction."
)
ASSUMPTIONS = ["the reference reads the format as documented in the reader/writer/field-id docstrings; it was cross-checked on all 17454 stored periods"]
CASE_SCALE = {"zone_full": 100}  # one case = every interval of a zone through year 9999

FILES = {
    "bundled": "pyoda_time/time_zones/Tzdb.nzd",
    "2013b": "tests/test_data/Tzdb2013bFromNodaTime1.1.nzd",
}


def exhaustive(tier: str) -> bool:
    return tier == "thorough"


def need(cond: bool, sig: str, msg: str = "") -> None:
    if not cond:
        raise Mismatch(sig, msg)


def eval_case(kind: str, c: dict) -> CaseInfo:
    return globals()["_k_" + kind](c)


def file_path(which: str) -> str:
    p = os.path.join(bootstrap.repo_dir(), FILES[which])
    # package-only scratch copies used by the mutation probes have no tests/ directory
    return p if os.path.exists(p) else os.path.join("/repo", FILES[which])


@lru_cache(maxsize=None)
def ref_db(which: str) -> nzd.Nzd:
    with open(file_path(which), "rb") as fh:
        return nzd.parse(fh.read())


@lru_cache(maxsize=None)
def lib_provider(which: str):
    if which == "bundled":
        return Z.provider()
    from pyoda_time.time_zones import DateTimeZoneCache
    from pyoda_time.time_zones._tzdb_date_time_zone_source import TzdbDateTimeZoneSource

    with open(file_path(which), "rb") as fh:
        src = TzdbDateTimeZoneSource.from_stream(fh)
    return DateTimeZoneCache(src)


@lru_cache(maxsize=None)
def lib_source(which: str):
    from pyoda_time.time_zones._tzdb_date_time_zone_source import TzdbDateTimeZoneSource

    if which == "bundled":
        return TzdbDateTimeZoneSource.default
    with open(file_path(which), "rb") as fh:
        return TzdbDateTimeZoneSource.from_stream(fh)


@lru_cache(maxsize=4096)
def ref_intervals(which: str, canonical: str):
    return tzrules.intervals(ref_db(which).zones[canonical])


def ref_lookup(ivs, t: int):
    lo, hi = 0, len(ivs) - 1
    while lo < hi:
        mid = (lo + hi + 1) // 2
        if ivs[mid][0] <= t:
            lo = mid
        else:
            hi = mid - 1
    return ivs[lo]


def canonical_of(which: str, zid: str) -> str:
    db = ref_db(which)
    if zid in db.zones:
        return zid
    return db.id_map[zid]


def compare_at(which: str, zid: str, t: int) -> bool:
    """Library interval at instant t equals the reference interval at t. Returns non-triviality."""
    z = lib_provider(which)[zid]
    ivs = ref_intervals(which, canonical_of(which, zid))
    exp = ref_lookup(ivs, t)
    rz = ref_db(which).zones[canonical_of(which, zid)]
    if rz.kind == "fixed" and rz.fixed_name == rz.id and zid != rz.id:
        # a fixed zone stored without a name takes the id it was requested under (documented reader behaviour)
        exp = exp[:2] + (zid,) + exp[3:]
    got = Z.iv_tuple(z.get_zone_interval(Z.inst(t)))
    need(got == exp, "interval", f"{which}:{zid} at {t}: library {got}, file says {exp}")
    need(z.get_utc_offset(Z.inst(t)).seconds == exp[3], "utc-offset", f"{which}:{zid} at {t}")
    return exp[0] != Z.BEFORE_MIN


def _k_at(c) -> CaseInfo:
    if not Z.INST_MIN <= c["t"] <= Z.INST_MAX:
        raise InvalidCase
    db = ref_db(c["file"])
    if c["zone"] not in db.zones and c["zone"] not in db.id_map:
        raise InvalidCase
    nt = compare_at(c["file"], c["zone"], c["t"])
    return CaseInfo(nt, "at")


def _k_zone_full(c) -> CaseInfo:
    """Complete walk of one zone against the complete reference interval list."""
    which, zid = c["file"], c["zone"]
    z = lib_provider(which)[zid]
    ivs = ref_intervals(which, canonical_of(which, zid))
    i = 0
    for iv in Z.walk_from(z, Z.INST_MIN, 10**7):
        got = Z.iv_tuple(iv)
        need(i < len(ivs), "extra-interval", f"{which}:{zid}: library has more intervals than the file: {got}")
        need(got == ivs[i], "interval", f"{which}:{zid} interval #{i}: library {got}, file says {ivs[i]}")
        i += 1
    need(i == len(ivs), "missing-intervals", f"{which}:{zid}: library walked {i} intervals, file says {len(ivs)}")
    return CaseInfo(True, "zone_full")


def _k_meta(c) -> CaseInfo:
    which = c["file"]
    db = ref_db(which)
    prov = lib_provider(which)
    src = lib_source(which)
    exp_ids = sorted(set(db.zones) | set(db.id_map))
    need(list(prov.ids) == exp_ids, "ids", f"{which}: {len(list(prov.ids))} ids vs {len(exp_ids)} expected; diff {sorted(set(prov.ids) ^ set(exp_ids))[:5]}")
    need(sorted(src.get_ids()) == exp_ids, "source-ids")
    need(db.tzdb_version in prov.version_id and src.tzdb_version == db.tzdb_version, "version", f"{prov.version_id} vs {db.tzdb_version}")
    cmap = dict(src.canonical_id_map)
    exp_map = dict(db.id_map)
    exp_map.update({z: z for z in db.zones})
    need(cmap == exp_map, "canonical-id-map", f"{which}")
    for canon, aliases in src.aliases.items():
        need(sorted(aliases) == sorted(k for k, v in db.id_map.items() if v == canon and k != canon), "aliases-lookup", f"{canon}")
    src.validate()
    return CaseInfo(True, "meta")


def _k_alias(c) -> CaseInfo:
    which, alias = c["file"], c["alias"]
    db = ref_db(which)
    if alias not in db.id_map or db.id_map[alias] == alias:
        raise InvalidCase
    prov = lib_provider(which)
    za, zc = prov[alias], prov[db.id_map[alias]]
    need(za.id == alias, "alias-id", f"{alias}: zone id {za.id}")
    need(zc.id == db.id_map[alias], "canonical-id")
    for t in c["ts"]:
        if Z.INST_MIN <= t <= Z.INST_MAX:
            compare_at(which, alias, t)
            ta, tc = Z.iv_tuple(za.get_zone_interval(Z.inst(t))), Z.iv_tuple(zc.get_zone_interval(Z.inst(t)))
            rz = db.zones[db.id_map[alias]]
            if rz.kind == "fixed" and rz.fixed_name == rz.id:
                ta, tc = ta[:2] + ta[3:], tc[:2] + tc[3:]  # unnamed fixed zones are named after the requested id
            need(ta == tc, "alias-vs-canonical", f"{alias} at {t}: {ta} vs {tc}")
    need(za.min_offset == zc.min_offset and za.max_offset == zc.max_offset, "alias-min-max")
    return CaseInfo(True, "alias")


def fixed_id(s: int) -> str:
    if s == 0:
        return "UTC"
    a = abs(s)
    h, m, sec = a // 3600, a // 60 % 60, a % 60
    txt = f"{h:02d}"
    if m or sec:
        txt += f":{m:02d}"
    if sec:
        txt += f":{sec:02d}"
    return "UTC" + ("+" if s > 0 else "-") + txt


def check_fixed(prov, s: int) -> None:
    zid = fixed_id(s)
    z = prov.get_zone_or_none(zid)
    need(z is not None, "fixed-id-not-resolved", f"{zid}")
    need(z.get_utc_offset(Z.inst(0)).seconds == s and z.min_offset.seconds == s and z.max_offset.seconds == s, "fixed-id-offset", f"{zid}: {z.get_utc_offset(Z.inst(0)).seconds}")
    need(z.id == zid, "fixed-id-id", f"{zid}: {z.id}")
    iv = z.get_zone_interval(Z.inst(0))
    need(not iv.has_start and not iv.has_end and iv.savings.seconds == 0, "fixed-id-interval")
    need(prov[zid].id == zid, "fixed-id-getitem")


def _k_fixed(c) -> CaseInfo:
    if abs(c["s"]) > 64800:
        raise InvalidCase
    check_fixed(lib_provider("bundled"), c["s"])
    return CaseInfo(True, "fixed")


NEAR_MISSES = [
    "UTC+", "UTC-", "UTC+25", "UTC+18:01", "UTC-18:00:01", "UTC+05:60", "UTC+05:30:60", "UTCX", "UTC+05:30:", "utc+05",
    "UTC +05", "UTC+05:3", "UTC+0530x", "UTC++05", "UTC+05:30:15:00", "UT", "UTC+1e1", "UTC+٠٥", "UTC+05:30Z", "Europe/Londonx", "",
]


def _k_near_miss(c) -> CaseInfo:
    from pyoda_time.time_zones import DateTimeZoneNotFoundError

    prov = lib_provider("bundled")
    zid = c["id"]
    z = prov.get_zone_or_none(zid)
    need(z is None, "near-miss-resolved", f"{zid!r} -> {getattr(z, 'id', z)}")
    try:
        prov[zid]
    except DateTimeZoneNotFoundError:
        return CaseInfo(True, "near_miss")
    raise Mismatch("near-miss-getitem-no-error", f"{zid!r}")


# ---------------------------------------------------------------------------------------------------------------


def sample_instants(which: str, canonical: str, years: list[int]) -> list[int]:
    """Start instants of every stored period plus the starts of reference tail intervals within `years`."""
    z = ref_db(which).zones[canonical]
    ivs = ref_intervals(which, canonical)
    ts = [Z.INST_MIN]
    nstored = 1 if z.kind == "fixed" else len(z.periods)
    for iv in ivs[:nstored]:
        if iv[0] != Z.BEFORE_MIN:
            ts += [iv[0], iv[0] - 1]
    if z.kind != "fixed" and z.tail is not None:
        tail = ivs[nstored:]
        starts = [iv[0] for iv in tail]
        import bisect

        first_year = tzrules.year_of_ns(z.tail_start)
        for y in sorted(set(years) | {first_year + k for k in range(0, 5)}):
            a, b = Z.year_start_ns(y), Z.year_start_ns(y + 1) if y < 9999 else Z.INST_MAX
            i = bisect.bisect_left(starts, a)
            while i < len(starts) and starts[i] < b:
                ts += [starts[i], starts[i] - 1]
                i += 1
        ts.append(Z.INST_MAX)
    return [t for t in ts if Z.INST_MIN <= t <= Z.INST_MAX]


def task_zones(ctx: Ctx, which: str, ids: list[str], thorough: bool, years: list[int]) -> None:
    ev = nt = 0
    for zid in ids:
        if ctx.should_abort():
            break
        canonical = canonical_of(which, zid)
        if thorough and zid == canonical:
            ok = ctx.case("zone_full", {"file": which, "zone": zid})
            n = len(ref_intervals(which, canonical))
            ctx.bulk(n - 1, n - 1 if ok else 0, "intervals:full")
            continue
        for t in sample_instants(which, canonical, years):
            try:
                if compare_at(which, zid, t):
                    nt += 1
            except Mismatch as m:
                ctx.fail("at", {"file": which, "zone": zid, "t": t}, m.sig, m.msg)
            except Exception as e:  # noqa: BLE001
                ctx.fail_exc("at", {"file": which, "zone": zid, "t": t}, e)
            ev += 1
    ctx.bulk(ev, nt // 2, "intervals:sampled")
    ctx.sample("at", {"file": which, "zone": ids[0], "t": 0}, True)


def task_meta(ctx: Ctx, seed: int) -> None:
    for which in FILES:
        ctx.case("meta", {"file": which})
        db = ref_db(which)
        aliases = sorted(k for k, v in db.id_map.items() if k != v)
        for i, a in enumerate(aliases):
            ts = [Z.INST_MIN, 0, Z.INST_MAX, Z.year_start_ns(1900 + sub_seed(seed, a) % 200), Z.year_start_ns(2030) + sub_seed(seed, a, 1) % (300 * Z.DAY)]
            ctx.case("alias", {"file": which, "alias": a, "ts": ts})
    for zid in NEAR_MISSES:
        ctx.case("near_miss", {"id": zid})


def task_fixed(ctx: Ctx, lo: int, hi: int, step: int) -> None:
    prov = lib_provider("bundled")
    n = 0
    for s in range(lo, hi, step):
        try:
            check_fixed(prov, s)
        except Mismatch as m:
            ctx.fail("fixed", {"s": s}, m.sig, m.msg)
        except Exception as e:  # noqa: BLE001
            ctx.fail_exc("fixed", {"s": s}, e)
        n += 1
    ctx.bulk(n, n, "fixed-ids")
    ctx.sample("fixed", {"s": lo}, True)


def tasks(tier: str, seed: int) -> list[Task]:
    thorough = tier == "thorough"
    years = sorted({2037, 2038, 2039, 2040} | set(range(9990, 10000)) | {2041 + sub_seed(seed, "c06y", i) % 7940 for i in range(40)})
    out = []
    for which in FILES:
        db = ref_db(which)
        ids = sorted(set(db.zones) | set(db.id_map)) if not thorough else sorted(db.zones)
        k = 24 if thorough else 8
        # spread the heavy (tailed) zones
        ids.sort(key=lambda i: (db.zones[canonical_of(which, i)].tail is None, i))
        for j in range(k):
            chunk = ids[j::k]
            if chunk:
                out.append(Task("task_zones", {"which": which, "ids": chunk, "thorough": thorough, "years": years}, f"zones-{which}-{j}"))
    out.append(Task("task_meta", {"seed": seed}, "meta"))
    if thorough:
        for j in range(8):
            out.append(Task("task_fixed", {"lo": -64800 + j, "hi": 64801, "step": 8}, f"fixed-{j}"))
    else:
        off = sub_seed(seed, "c06f") % 7
        out.append(Task("task_fixed", {"lo": -64800 + off, "hi": 64801, "step": 7}, "fixed-a"))
        out.append(Task("task_fixed", {"lo": -64800, "hi": 64801, "step": 900}, "fixed-b"))
    return out
