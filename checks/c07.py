"""C07 - formatting then parsing with the same pattern returns the original value.

Oracles: (1) exact round trip for values the pattern's fields can represent (projection onto the fields present),
(2) format(parse(format(v))) == format(v) for every value where numeric fields are delimited, (3) the built-in
round-trip / ISO patterns recover every value, (4) formatting is deterministic.
"""

from __future__ import annotations

from functools import lru_cache

from hypothesis import strategies as st

from harness import pyo
from harness import text as T
from harness.core import CaseInfo, Ctx, InvalidCase, Mismatch, Task, sub_seed
from harness.gen import run_hypothesis

PROPERTY = "C07"
LEVEL = "exploration"
RULE = (
    "Grammar-generated patterns (distinct fields with legal repeat counts separated by literal/quoted/escaped "
    "separators; date-time patterns embedding ld<date pattern> / lt<time pattern>; duration and offset patterns from their own shape grammars; standard single-letter patterns) x every "
    "available culture (each visited at least once per type in every tier) x values of the type in all calendars. "
    "Applicability rules from the property are enforced by construction and counted: delimited numerics, text "
    "month/day names pairwise distinct and months 1-12, usable AM/PM designators, unambiguous era names, no repeated "
    "fields, day-of-week text only with a full date. Non-trivial: >= 2 fields and (non-invariant culture, non-ISO "
    "calendar, quoted/escaped literal). Distinct = (type, pattern, culture, value) hash."
)
ASSUMPTIONS = ["lossy fields are never reported: oracle 1 only asserts the projection of the value onto the fields present"]

DAY = pyo.DAY


def need(cond: bool, sig: str, msg: str = "") -> None:
    if not cond:
        raise Mismatch(sig, msg)


def eval_case(kind: str, c: dict) -> CaseInfo:
    return globals()["_k_" + kind](c)


# ---------------------------------------------------------------------------------------------------------------
# pattern tokenizer (harness side) and applicability
# ---------------------------------------------------------------------------------------------------------------


def tokenize(pattern: str) -> list[tuple[str, object]]:
    """[('field', (letter, count)) | ('lit', text)] - quotes, backslash escapes, % prefix handled."""
    out: list[tuple[str, object]] = []
    i, n = 0, len(pattern)
    while i < n:
        ch = pattern[i]
        if ch in "'\"":
            j = i + 1
            buf = ""
            while j < n and pattern[j] != ch:
                if pattern[j] == "\\" and j + 1 < n:
                    j += 1
                buf += pattern[j]
                j += 1
            out.append(("lit", buf))
            i = j + 1
        elif ch == "\\":
            out.append(("lit", pattern[i + 1 : i + 2]))
            i += 2
        elif ch == "%":
            i += 1
        elif ch.isalpha() or ch in "+-":
            j = i
            while j < n and pattern[j] == ch:
                j += 1
            out.append(("field", (ch, j - i)))
            i = j
        else:
            out.append(("lit", ch))
            i += 1
    return out


def fields_of(pattern: str) -> dict[str, int]:
    return {tok[1][0]: tok[1][1] for tok in tokenize(pattern) if tok[0] == "field"}  # type: ignore[index]


@lru_cache(maxsize=None)
def culture_facts(cname: str) -> dict:
    from pyoda_time.calendars import Era
    from pyoda_time.globalization._pyoda_format_info import _PyodaFormatInfo

    fi = _PyodaFormatInfo._get_format_info(T.culture(cname))

    def distinct(names) -> bool:
        xs = [x.casefold() for x in list(names)[1:13] if x is not None]
        return len(xs) >= 12 and len(set(xs)) == len(xs) and all(xs) and not any(a != b and b.startswith(a) for a in xs for b in xs)

    def distinct7(names) -> bool:
        xs = [x.casefold() for x in list(names)[1:8] if x is not None]
        return len(xs) == 7 and len(set(xs)) == 7 and all(xs) and not any(a != b and b.startswith(a) for a in xs for b in xs)

    am, pm = fi.am_designator, fi.pm_designator
    eras = [Era.common, Era.before_common]
    era_ok = True
    try:
        names = {e: [x for x in fi.get_era_names(e)] for e in eras}
        prim = {e: fi.get_era_primary_name(e) for e in eras}
        for e in eras:
            if not prim[e]:
                era_ok = False
            for o in eras:
                if o is not e:
                    for nm in names[e]:
                        if nm and prim[o].casefold().startswith(nm.casefold()):
                            era_ok = False
    except Exception:  # noqa: BLE001
        era_ok = False
    digits_in_names = any(any(ch.isdigit() for ch in (x or "")) for tbl in (fi.long_month_names, fi.short_month_names, fi.long_day_names, fi.short_day_names) for x in tbl)
    def forms(*tables):
        return sorted({x.casefold() for tbl in tables for x in tbl if x})

    return {
        "names": {
            ("M", 4): forms(fi.long_month_names, fi.long_month_genitive_names),
            ("M", 3): forms(fi.short_month_names, fi.short_month_genitive_names),
            ("d", 4): forms(fi.long_day_names),
            ("d", 3): forms(fi.short_day_names),
        },
        "MMMM": distinct(fi.long_month_names) and distinct(fi.long_month_genitive_names),
        "MMM": distinct(fi.short_month_names) and distinct(fi.short_month_genitive_names),
        "dddd": distinct7(fi.long_day_names),
        "ddd": distinct7(fi.short_day_names),
        "tt": bool(am) and bool(pm) and am.casefold() != pm.casefold() and not am.casefold().startswith(pm.casefold()) and not pm.casefold().startswith(am.casefold()),
        "t": bool(am) and bool(pm) and am[0].casefold() != pm[0].casefold(),
        "g": era_ok,
        "sep_time": fi.time_separator,
        "sep_date": fi.date_separator,
        "digits_in_names": digits_in_names,
        "am": am,
        "pm": pm,
    }


def applicable(t: str, pattern: str, cname: str, value) -> str | None:
    """None if the round-trip property applies to (pattern, culture, value); else the reason it does not."""
    toks = tokenize(pattern)
    f = fields_of(pattern)
    facts = culture_facts(cname)
    if len(pattern) == 1:
        return None if pattern in "rRosOSjJ" or t in ("offset",) else "standard-pattern-culture-dependent"
    letters = [tok[1][0] for tok in toks if tok[0] == "field"]  # type: ignore[index]
    if len(letters) != len(set(letters)):
        return "repeated-field"
    # delimited numerics: a variable-width numeric field must be followed by a non-digit literal or the end
    for i, tok in enumerate(toks):
        if tok[0] != "field":
            continue
        letter, count = tok[1]  # type: ignore[misc]
        numeric = (letter in "yuMdHhmsDS" and not (letter == "M" and count >= 3) and not (letter == "d" and count >= 3)) or letter in "fF"
        if numeric and i + 1 < len(toks):
            nxt = toks[i + 1]
            if nxt[0] == "field":
                return "undelimited-numeric"
            lit = nxt[1]
            if lit == ":":
                lit = facts["sep_time"]
            if lit == "/":
                lit = facts["sep_date"]
            if not lit or lit[0].isdigit() or lit[0] in "+-−":
                return "undelimited-numeric"
        if not numeric and i + 1 < len(toks) and toks[i + 1][0] == "field":
            return "text-field-not-delimited"
    # an optional fraction (".F" / ";F") directly followed by a literal '.' or ',' is ambiguous with the decimal separator
    for i, tok in enumerate(toks):
        if tok[0] == "field" and tok[1][0] == "F" and i > 0 and toks[i - 1] in (("lit", "."), ("lit", ";")):  # type: ignore[index]
            if i + 1 < len(toks) and toks[i + 1][0] == "lit":
                nxt_lit = str(toks[i + 1][1])
                nxt_lit = facts["sep_time"] if nxt_lit == ":" else facts["sep_date"] if nxt_lit == "/" else nxt_lit
                if nxt_lit[:1] in ".,;":
                    return "optional-fraction-followed-by-separator"
        if tok[0] == "field" and tok[1][0] in "fF" and i > 0 and toks[i - 1][0] == "lit" and toks[i - 1][1] in (":", "/"):  # type: ignore[index]
            # the culture's time/date separator may itself be "." or ",", which the fraction formatter then owns
            sep = facts["sep_time"] if toks[i - 1][1] == ":" else facts["sep_date"]
            if sep[-1:] in ".,":
                return "culture-separator-dot-before-fraction"
    if t in ("date", "datetime", "instant", "annual"):
        if f.get("M", 0) >= 3:
            if not facts["MMMM" if f["M"] == 4 else "MMM"]:
                return "month-names-not-distinct"
            if getattr(value, "month", 1) > 12:
                return "month-beyond-12"
        if f.get("d", 0) >= 3:
            if not facts["dddd" if f["d"] == 4 else "ddd"]:
                return "day-names-not-distinct"
            if not (("u" in f or "y" in f) and "M" in f):
                return "day-of-week-without-full-date"
            if not any(tok[0] == "field" and tok[1][0] == "d" and tok[1][1] <= 2 for tok in toks):  # type: ignore[index]
                return "day-of-week-without-full-date"
        if "g" in f and not facts["g"]:
            return "era-names-ambiguous"
        if facts["digits_in_names"] and (f.get("M", 0) >= 3 or f.get("d", 0) >= 3):
            return "names-contain-digits"
    if "t" in f:
        if not facts["tt" if f["t"] == 2 else "t"]:
            return "am-pm-unusable"
        if any(ch.isdigit() for ch in facts["am"] + facts["pm"]):
            return "am-pm-unusable"
    # literal text must not be confusable with a following text field (letters next to names)
    for i, tok in enumerate(toks):
        if tok[0] == "field":
            letter, count = tok[1]  # type: ignore[misc]
            text_field = (letter == "M" and count >= 3) or (letter == "d" and count >= 3) or letter in "tgc"
            if (letter, count) in facts["names"] and i + 1 < len(toks) and toks[i + 1][0] == "lit":
                # one form of a name continued by the following literal spells another form of a name
                # (hsb: "apr" + "." vs the genitive "apr."): the produced text is inherently ambiguous
                lit = str(toks[i + 1][1])
                lit = facts["sep_time"] if lit == ":" else facts["sep_date"] if lit == "/" else "." if lit == ";" else lit
                ch = lit[:1].casefold()
                nm = facts["names"][(letter, count)]
                if ch and any(b != a and b.startswith(a) and b[len(a)] == ch for a in nm for b in nm):
                    return "name-extended-by-following-literal"
            if text_field and i + 1 < len(toks) and toks[i + 1][0] == "lit" and str(toks[i + 1][1])[:1].isalpha():
                return "text-field-followed-by-letters"
            if text_field and i > 0 and toks[i - 1][0] == "lit" and str(toks[i - 1][1])[-1:].isalpha():
                return "text-field-preceded-by-letters"
    return None


# ---------------------------------------------------------------------------------------------------------------
# projection (oracle 1)
# ---------------------------------------------------------------------------------------------------------------


def project_time(ns: int, f: dict[str, int], tmpl_ns: int) -> int | None:
    H = 3600 * 10**9
    h, m, s, frac = ns // H, ns // (60 * 10**9) % 60, ns // 10**9 % 60, ns % 10**9
    th, tm, ts, tfrac = tmpl_ns // H, tmpl_ns // (60 * 10**9) % 60, tmpl_ns // 10**9 % 60, tmpl_ns % 10**9
    if "H" in f:
        hour = h
    elif "h" in f:
        half = (h // 12) if "t" in f else (th // 12)
        hour = half * 12 + h % 12
    elif "t" in f:
        hour = (h // 12) * 12 + th % 12
    else:
        hour = th
    minute = m if "m" in f else tm
    second = s if "s" in f else ts
    w = f.get("f", f.get("F"))
    if w is not None:
        frac2 = frac - frac % 10 ** (9 - w)
    else:
        frac2 = tfrac
    return hour * H + minute * 60 * 10**9 + second * 10**9 + frac2


def project_date(cid: str, y: int, m: int, d: int, f: dict[str, int], tmpl) -> tuple[int, int, int] | None:
    cal = pyo.cal(cid)
    if "u" in f:
        year = y
    elif "y" in f:
        if f["y"] == 2:
            return None  # two-digit windows are exercised by oracle 2 only
        if "g" in f:
            year = y
        else:
            # year-of-era with the template's era
            d0 = pyo_date(cid, y, m, d)
            if d0.era != tmpl.era:
                return None
            year = y
    else:
        year = tmpl.year
    month = m if "M" in f else tmpl.month
    day = d if ("d" in f and f["d"] <= 2) else tmpl.day
    if not cal.min_year <= year <= cal.max_year or month > cal.get_months_in_year(year) or day > cal.get_days_in_month(year, month):
        return None
    return year, month, day


def pyo_date(cid: str, y: int, m: int, d: int):
    from pyoda_time import LocalDate

    return LocalDate(y, m, d, pyo.cal(cid))


# ---------------------------------------------------------------------------------------------------------------


def dot_literal_before_fraction(lib_pattern: str) -> bool:
    """True when an optional fraction (F...) directly follows text that ends in '.' but is not the pattern's own
    decimal separator: a quoted / escaped dot, or a separator that stands outside the embedded pattern holding the F."""
    import re

    return bool(re.search(r"(\.'|\\\.|[.;]lt<)F", lib_pattern)) or bool(re.search(r"[.;]'F", lib_pattern))


def build_pattern(t: str, pattern: str, cname: str, value, tmpl, keep_iso: bool = False):
    """Pattern whose template value lives in the value's calendar (so that patterns without `c` are applicable).
    keep_iso: leave the default ISO template in place - the pattern's own `c` field has to carry the calendar."""
    from pyoda_time.text import InvalidPatternError

    try:
        p = T.create(t, pattern, cname)
        if tmpl is not None and hasattr(p, "with_template_value"):
            p = p.with_template_value(tmpl)
        elif keep_iso:
            pass
        elif t in ("date", "datetime") and value.calendar.id != "ISO" and hasattr(p, "with_calendar"):
            p = p.with_calendar(value.calendar)
    except InvalidPatternError:
        return None
    return p


def _k_fpf(c) -> CaseInfo:
    """Oracle 2 + 4 (+ 1 where a projection is defined)."""
    t, pattern, cname, vj = c["type"], c["pattern"], c["culture"], c["value"]
    if t not in T.TYPES or cname not in T.culture_names() or not T.value_in_domain(t, vj):
        raise InvalidCase
    tj = c.get("template")
    if tj is not None and not T.value_in_domain(t, tj):
        raise InvalidCase
    v = T.make_value(t, vj)
    tmpl = T.make_value(t, tj) if tj is not None else None
    if tmpl is not None and t in ("date", "datetime") and tmpl.calendar is not v.calendar:
        raise InvalidCase
    lib_pattern = pattern
    embedded = t == "datetime" and ("<" in pattern or ">" in pattern)
    if embedded:
        # ld<DP> / lt<TP> are equivalent to DP / TP spliced in; the oracles below work on the spliced pattern text
        pattern = T.flatten_embedded(pattern)
        if pattern is None:
            return CaseInfo(False, "n/a:embedded-standard-or-unbalanced")
    why = applicable(t, pattern, cname, v)
    if why is None and t in ("date", "datetime") and (fields_of(pattern).get("M", 0) >= 3 or len(pattern) == 1):
        # the template value is formatted when the pattern is built, so its month must be nameable as well
        from pyoda_time import LocalDate

        tm0 = tmpl if tmpl is not None else LocalDate(2000, 1, 1).with_calendar(v.calendar)
        if tm0.month > 12:
            why = "month-beyond-12"
    if why is not None:
        return CaseInfo(False, f"n/a:{why}")
    f = fields_of(pattern)
    # a pattern with a complete numeric date and a calendar field carries the calendar itself: for half of those
    # values the template stays the default ISO one, so the calendar has to travel through the text
    keep_iso = tmpl is None and t in ("date", "datetime") and "c" in f and "u" in f and f.get("M", 0) in (1, 2) and f.get("d", 0) in (1, 2) and vj.get("n", 0) % 2 == 0
    p = build_pattern(t, lib_pattern, cname, v, tmpl, keep_iso)
    if p is None:
        return CaseInfo(False, "n/a:invalid-pattern")
    if t in ("date", "datetime") and "c" not in f and len(pattern) > 1:
        pass  # template calendar = value calendar by construction
    text = p.format(v)
    need(isinstance(text, str), "format/type")
    if text == "":
        # every pattern documents that the empty string is unparsable; a pattern of optional fields only can emit it
        return CaseInfo(False, "n/a:empty-text")
    need(p.format(v) == text, "determinism/format-twice", f"{lib_pattern!r}")
    if cname == "" and tmpl is None:
        # format(value, pattern) / value.__format__ is the same function of (pattern, culture, value): the harness pins
        # the current culture to the invariant culture
        need(format(v, lib_pattern) == text, f"determinism/__format__/{t}", f"{lib_pattern!r}: {format(v, lib_pattern)!r} vs {text!r}")
    p2 = build_pattern(t, lib_pattern, cname, v, tmpl, keep_iso)
    need(p2.format(v) == text, "determinism/fresh-pattern", f"{lib_pattern!r} [{cname}]")
    # oracle 1: exact recovery of the projection
    exp = None
    if len(pattern) > 1 and t in ("time", "date", "datetime"):
        tm = tmpl
        if tm is None:
            tm = getattr(p, "template_value", None)
        if tm is not None:
            if t == "time":
                e = project_time(v.nanosecond_of_day, f, tm.nanosecond_of_day)
                exp = None if e is None else ("time", e)
            elif t == "date" and tm.calendar is v.calendar:
                e3 = project_date(v.calendar.id, v.year, v.month, v.day, f, tm)
                exp = None if e3 is None else ("date", e3)
            elif t == "datetime" and tm.calendar is v.calendar:
                e3 = project_date(v.calendar.id, v.year, v.month, v.day, f, tm)
                e = project_time(v.nanosecond_of_day, f, tm.nanosecond_of_day)
                exp = None if e3 is None or e is None else ("datetime", e3, e)
    if keep_iso and exp is None:
        tm0 = getattr(p, "template_value", None)
        if t == "date":
            exp = ("date", (v.year, v.month, v.day))
        elif tm0 is not None:
            e = project_time(v.nanosecond_of_day, f, tm0.nanosecond_of_day)
            exp = None if e is None else ("datetime", (v.year, v.month, v.day), e)
    r = p.parse(text)
    if not r.success:
        representable = exp is not None or t in ("offset", "duration") or (t == "time") or (t == "annual" and "M" in f and "d" in f) or (len(pattern) == 1)
        if t == "instant" and len(pattern) > 1:
            representable = ("u" in f or ("y" in f and f["y"] == 4)) and "M" in f and ("d" in f and f["d"] <= 2)
        if not representable:
            # the pattern lacks fields and the template's values do not combine with the formatted ones into a valid
            # value (e.g. month 13 with the template's day 22): nothing representable was formatted
            return CaseInfo(False, "n/a:not-representable")
        invariant_std = {"date": "Rr", "datetime": "oOrRsS"}.get(t, "")
        if len(pattern) == 1 and pattern in invariant_std and (tmpl is not None or getattr(getattr(v, "calendar", None), "id", "ISO") != "ISO"):
            raise Mismatch(f"standard-invariant-pattern-ignores-template/{t}", f"{t} {lib_pattern!r} {T.describe(t, v)} -> {text!r}: {r.exception}")
        if dot_literal_before_fraction(lib_pattern):
            # an empty optional fraction removes a preceding '.' from the output whoever wrote it - also one that came
            # from a quoted literal, an escape, the culture's separator or the enclosing pattern of an embedded lt<>
            raise Mismatch("format-then-parse-fails/literal-dot-eaten-by-empty-fraction", f"{t} {lib_pattern!r} [{cname}] {T.describe(t, v)} -> {text!r}: {r.exception}")
        raise Mismatch(f"format-then-parse-fails/{t}", f"{t} {lib_pattern!r} [{cname}] {T.describe(t, v)} -> {text!r}: {r.exception}")
    back = r.value
    text2 = p.format(back)
    if text2 != text:
        cls = t
        if t in ("offset", "duration") and T.value_key(t, v) < 0 and T.value_key(t, back) == 0:
            cls += "/negative-zero"  # a lossy pattern printed "-0...": the sign of a value that truncates to zero
        raise Mismatch(f"format-parse-format/{cls}", f"{t} {lib_pattern!r} [{cname}] {T.describe(t, v)} -> {text!r} -> {T.describe(t, back)} -> {text2!r}")
    if exp is not None:
        if exp[0] == "time":
            need(back.nanosecond_of_day == exp[1], "exact/time", f"{lib_pattern!r} [{cname}] {T.describe(t, v)} -> {text!r} -> {back.nanosecond_of_day}, expected {exp[1]}")
        elif exp[0] == "date":
            need(pyo.fields(back) == exp[1] and back.calendar is v.calendar, "exact/date", f"{lib_pattern!r} [{cname}] {T.describe(t, v)} -> {text!r} -> {T.describe(t, back)}, expected {exp[1]}")
        else:
            need(pyo.fields(back.date) == exp[1] and back.nanosecond_of_day == exp[2] and back.calendar is v.calendar, "exact/datetime", f"{lib_pattern!r} [{cname}] {T.describe(t, v)} -> {text!r} -> {T.describe(t, back)}, expected {exp[1:]}")
    nf = len(f)
    quoted = any(ch in pattern for ch in "'\"\\")
    cal_id = getattr(getattr(v, "calendar", None), "id", "ISO")
    nt = nf >= 2 and (cname != "" or cal_id != "ISO" or quoted)
    return CaseInfo(nt, ("fpf:exact" if exp is not None else "fpf") + (":embedded" if embedded else ""))


BUILTINS = {
    "date": ["iso", "full_roundtrip"],
    "time": ["extended_iso", "long_extended_iso", "general_iso", "hour_iso", "hour_minute_iso", "variable_precision_iso"],
    "datetime": ["extended_iso", "bcl_round_trip", "full_roundtrip", "full_roundtrip_without_calendar", "general_iso", "date_hour_iso", "date_hour_minute_iso", "variable_precision_iso"],
    "instant": ["extended_iso", "general"],
    "offset": ["general_invariant", "general_invariant_with_z"],
    "duration": ["roundtrip", "json_roundtrip"],
    "annual": ["iso"],
}


def _k_builtin(c) -> CaseInfo:
    t, name, vj = c["type"], c["name"], c["value"]
    if t not in BUILTINS or name not in BUILTINS[t] or not T.value_in_domain(t, vj):
        raise InvalidCase
    # fixed-precision ISO patterns represent values on their own grid: truncate the generated value onto it
    grid = {"general_iso": 10**9, "general": 10**9, "hour_iso": 3600 * 10**9, "date_hour_iso": 3600 * 10**9, "hour_minute_iso": 60 * 10**9, "date_hour_minute_iso": 60 * 10**9}.get(name)
    if grid:
        vj = dict(vj)
        key = "i" if t == "instant" else "ns"
        vj[key] -= vj[key] % grid
    v = T.make_value(t, vj)
    p = getattr(T.pattern_class(t), name)
    cal_id = getattr(getattr(v, "calendar", None), "id", "ISO")
    calendarless = name in ("iso", "extended_iso", "bcl_round_trip", "full_roundtrip_without_calendar", "long_extended_iso", "general_iso", "hour_iso", "hour_minute_iso", "variable_precision_iso", "date_hour_iso", "date_hour_minute_iso")
    if t in ("date", "datetime") and calendarless and cal_id != "ISO":
        raise InvalidCase  # these patterns do not carry the calendar: they round-trip ISO values
    if name == "bcl_round_trip" and vj["ns"] % 100 != 0:
        raise InvalidCase  # tick precision by definition
    text = p.format(v)
    need(p.format(v) == text, "builtin/determinism")
    r = p.parse(text)
    need(r.success, f"builtin/{t}.{name}/parse-fails", f"{T.describe(t, v)} -> {text!r}: {r.exception if not r.success else ''}")
    need(T.value_key(t, r.value) == T.value_key(t, v) and r.value == v, f"builtin/{t}.{name}/roundtrip", f"{T.describe(t, v)} -> {text!r} -> {T.describe(t, r.value)}")
    return CaseInfo(cal_id != "ISO" or t in ("duration", "offset", "instant"), f"builtin:{t}.{name}")


def _k_composite(c) -> CaseInfo:
    """Composite patterns (public CompositePatternBuilder): the text comes from a component whose predicate accepts
    the value, and parsing it gives the value back; formatting is deterministic."""
    t, vj, upto = c["type"], c["value"], c.get("upto", 9)
    if t not in T.COMPOSITES or not T.value_in_domain(t, vj) or not 1 <= upto <= 9:
        raise InvalidCase
    v = T.make_value(t, vj)
    if t in ("date", "datetime") and v.calendar.id != "ISO":
        raise InvalidCase  # the components carry no calendar field
    if t == "instant" and not -9998 * 366 * DAY < vj["i"]:
        raise InvalidCase
    comp, comps = T.composite(t, "", upto)
    text = comp.format(v)
    need(comp.format(v) == text and T.composite(t, "", upto)[0].format(v) == text, "composite/determinism")
    ok_texts = [p.format(v) for p, pred in comps if pred(v)]
    need(text in ok_texts, f"composite/text-from-rejected-component/{t}", f"{T.describe(t, v)} -> {text!r}; acceptable {ok_texts}")
    r = comp.parse(text)
    need(r.success, f"composite/format-then-parse-fails/{t}", f"{T.describe(t, v)} -> {text!r}: {r.exception if not r.success else ''}")
    need(T.value_key(t, r.value) == T.value_key(t, v) and r.value == v, f"composite/roundtrip/{t}", f"{T.describe(t, v)} -> {text!r} -> {T.describe(t, r.value)}")
    # every component's own text parses through the composite too
    for p, pred in comps:
        if pred(v):
            r2 = comp.parse(p.format(v))
            need(r2.success and r2.value == v, f"composite/component-text/{t}", f"{p.format(v)!r}")
    return CaseInfo(len(ok_texts) > 1, f"composite:{t}")


# ---------------------------------------------------------------------------------------------------------------
# generators
# ---------------------------------------------------------------------------------------------------------------


def st_duration_pattern() -> st.SearchStrategy[str]:
    seps = [":", "'x'", " ", "'d '", ","]

    def build(x):
        top, depth, sign, frac, fw, sep_ix, pad = x
        order = ["D", "H", "M", "S"]
        partial = {"H": "h", "M": "m", "S": "s"}
        i = order.index(top)
        toks = [sign, top * (1 + pad % 2)]
        last = top
        for k in range(i + 1, min(len(order), i + 1 + depth)):
            toks.append(seps[(sep_ix + k) % len(seps)])
            toks.append(partial[order[k]] * 2)
            last = order[k]
        if frac and last == "S":
            toks.append(".")
            toks.append(("f" if frac == 1 else "F") * fw)
        return "".join(toks)

    return st.tuples(st.sampled_from(["D", "H", "M", "S"]), st.integers(0, 3), st.sampled_from(["-", "+"]), st.integers(0, 2), st.integers(1, 9), st.integers(0, 9), st.integers(0, 3)).map(build)


def st_offset_pattern() -> st.SearchStrategy[str]:
    return st.sampled_from(["+HH:mm:ss", "+HH:mm", "+HH", "-HH:mm:ss", "+H:mm:ss", "+HH'h'mm'm'ss", "+HHmmss", "-H:m:s", "g", "G", "f", "m", "s", "l", "+HH mm", "+HH\\:mm:ss"])


def st_pattern(t: str) -> st.SearchStrategy[str]:
    if t == "duration":
        return st.one_of(st_duration_pattern(), st.sampled_from(["o", "j"]))
    if t == "offset":
        return st_offset_pattern()
    std = {"date": "dDrR", "time": "tTrRoO", "datetime": "fFgGoOrRsS", "instant": "g", "annual": "G"}[t]
    return st.one_of(T.st_valid_pattern(t), T.st_valid_pattern(t), st.sampled_from(list(std)))


def task_hyp(ctx: Ctx, shard: int, n: int, cultures: list[str]) -> None:
    s = sub_seed(ctx.seed, "c07", shard)
    t = T.TYPES[shard % len(T.TYPES)]

    def body(pattern, cname, v, tmpl, use_tmpl, bname):
        case = {"type": t, "pattern": pattern, "culture": cname, "value": v}
        if use_tmpl and t in ("time", "date", "datetime"):
            if t in ("date", "datetime"):
                tmpl = dict(tmpl, cal=v["cal"])
                cal = pyo.cal(v["cal"])
                tmpl["n"] = max(cal._min_days, min(cal._max_days, tmpl["n"]))
            case["template"] = tmpl
        ctx.case("fpf", case)
        ctx.case("builtin", {"type": t, "name": bname, "value": v})
        if t in T.COMPOSITES:
            # half of the values snapped to a coarser unit, so that the less precise components get chosen
            vv = dict(v)
            for key, unit in (("ns", 60 * 10**9), ("i", 60 * 10**9), ("s", 60)):
                if key in vv and use_tmpl:
                    vv[key] -= vv[key] % (unit * (60 if len(pattern) % 2 else 1))
            if "cal" in vv and vv["cal"] != "ISO":
                iso = pyo.cal("ISO")
                vv["cal"], vv["n"] = "ISO", max(iso._min_days, min(iso._max_days, vv["n"]))
            if t == "duration" and "ns" in vv:
                vv["ns"] = max(-(2**24) * DAY, min(2**24 * DAY, vv["ns"]))
            ctx.case("composite", {"type": t, "value": vv, "upto": 1 + len(pattern) % 3 if len(pattern) % 5 == 0 else 9})

    run_hypothesis(
        body,
        dict(pattern=st_pattern(t), cname=st.sampled_from(cultures), v=T.st_value(t), tmpl=T.st_value(t), use_tmpl=st.booleans(), bname=st.sampled_from(BUILTINS[t])),
        n,
        s,
    )


PANEL = {
    "date": ["uuuu'-'MM'-'dd", "dddd, d MMMM uuuu", "d MMM yyyy g", "M/d/yyyy", "yyyy'年'M'月'd'日'", "dd.MM.uuuu c", "MMMM d, uuuu", "MMM uuuu", "MMMM uuuu", "uuuu MMMM", "d MMMM uuuu, dddd"],
    "time": ["HH:mm:ss", "h:mm:ss tt", "hh.mm t", "H:m:s.FFFFFFFFF", "HH:mm:ss.fff", "hh:mm tt"],
    "datetime": ["uuuu-MM-dd'T'HH:mm:ss.fffffffff", "dddd, d MMMM uuuu h:mm:ss tt", "M/d/yyyy g HH:mm", "d MMM uuuu H:mm:ss.FFF", "MMMM uuuu HH:mm", "MMM uuuu H"],
    "instant": ["uuuu-MM-dd'T'HH:mm:ss'Z'", "d MMM uuuu HH:mm:ss.FFFFFF"],
    "annual": ["MM-dd", "MMMM d", "d MMM", "M/d"],
}


def task_witness(ctx: Ctx) -> None:
    """Fixed witnesses of the recorded open findings (so that each of them is met, and reported as KNOWN-FINDING, on
    every run), next to their nearest passing neighbours."""
    for case in (
        {"type": "time", "pattern": "HH'.'FF", "culture": "", "value": {"ns": 0}},
        {"type": "time", "pattern": "HH'.'FF", "culture": "", "value": {"ns": 120000000}},
        {"type": "time", "pattern": "HH.FF", "culture": "", "value": {"ns": 0}},
        {"type": "datetime", "pattern": "ld<uuuu-MM-dd>;lt<FF>", "culture": "", "value": {"cal": "ISO", "n": 0, "ns": 0}},
        {"type": "offset", "pattern": "-HH:mm", "culture": "", "value": {"s": -1}},
        {"type": "date", "pattern": "R", "culture": "", "value": {"cal": "Persian Simple", "n": 0}},
        {"type": "datetime", "pattern": "o", "culture": "", "value": {"cal": "Persian Simple", "n": 0, "ns": 0}},
    ):
        ctx.case("fpf", case)


def task_calendar_in_text(ctx: Ctx) -> None:
    """Every calendar through patterns whose own `c` field has to carry it (default ISO template), plain and embedded."""
    pats = {
        "date": ["uuuu-MM-dd c", "c uuuu-MM-dd", "uuuu-MM-dd '('c')'"],
        "datetime": ["uuuu-MM-dd c HH:mm", "ld<uuuu-MM-dd c> lt<HH:mm>", "ld<uuuu-MM-dd '('c')'>'T'HH:mm:ss", "lt<HH:mm> ld<c uuuu/MM/dd>"],
    }
    for cid in pyo.cal_ids():
        for n in (0, 2, 19782, 400):
            for t, pl in pats.items():
                for pat in pl:
                    v = {"cal": cid, "n": n} if t == "date" else {"cal": cid, "n": n, "ns": 45240000000000}
                    ctx.case("fpf", {"type": t, "pattern": pat, "culture": "", "value": v})


def task_cultures(ctx: Ctx, cultures: list[str], seed: int) -> None:
    """Every culture is visited for every type with a fixed panel of patterns and a few values."""
    vals = {
        "date": [{"cal": "ISO", "n": 19782}, {"cal": "ISO", "n": -700000}, {"cal": "Julian", "n": 11016}] + [{"cal": "ISO", "n": 19723 + 30 * k} for k in range(12)],
        "time": [{"ns": 0}, {"ns": 45296789012345}, {"ns": 86399999999999}, {"ns": 43200000000000}],
        "datetime": [{"cal": "ISO", "n": 19782, "ns": 45296789012345}, {"cal": "ISO", "n": 11016, "ns": 3723000000000}],
        "instant": [{"i": 1709251200123456789}, {"i": -5 * 10**17}],
        "annual": [{"m": 2, "d": 29}, {"m": 12, "d": 31}, {"m": 7, "d": 4}],
    }
    for cname in cultures:
        for t, pats in PANEL.items():
            for pattern in pats:
                for v in vals[t]:
                    ctx.case("fpf", {"type": t, "pattern": pattern, "culture": cname, "value": v})


def tasks(tier: str, seed: int) -> list[Task]:
    names = list(T.culture_names())
    thorough = tier == "thorough"
    out = []
    k = 10
    for j in range(k):
        out.append(Task("task_cultures", {"cultures": names[j::k], "seed": seed}, f"cultures-{j}"))
    out.append(Task("task_witness", {}, "witness"))
    out.append(Task("task_calendar_in_text", {}, "calendar-in-text"))
    for i in range(14):
        cults = [""] + [names[sub_seed(seed, "c07c", i, q) % len(names)] for q in range(40)]
        out.append(Task("task_hyp", {"shard": i, "n": 5000 if not thorough else 60000, "cultures": cults}, f"hyp-{i}"))
    return out
