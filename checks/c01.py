"""C01 - every calendar is an order-preserving bijection  day number <-> (year, month, day).

Domain: finite, enumerated.  thorough = every (calendar, day) pair and every (y, m, d) triple in and just
outside the tables; quick = every year boundary +/-2 days, all year tables, seed-chosen 16-year blocks swept
completely, sampled triples.   Oracle: the day-number line itself (each direction against the other and against
the calendar's own reported tables).
"""

from __future__ import annotations

from harness.core import CaseInfo, Ctx, InvalidCase, Mismatch, Task, sub_seed

PROPERTY = "C01"
LEVEL = "exploration"
RULE = (
    "Enumeration of (calendar, day number) over CalendarSystem.ids x [min_days, max_days] and of (y, m, d) triples "
    "in/just outside the tables; quick tier sweeps all year boundaries +/-2 days, every year's tables, and a "
    "seed-chosen twelfth of all 16-year blocks day by day; thorough sweeps everything. Non-trivial = a day within 2 "
    "days of a year or month boundary, a leap/intercalary month day, or within 2 days of the calendar's range ends; "
    "distinct by construction (each (calendar, day) and each triple is visited at most once per kind)."
)
ASSUMPTIONS = ["the shared day-number line (ints) is the model; LocalDate._ctor(days_since_epoch=, calendar=) is the day->date direction used by with_calendar/plus_days"]


def exhaustive(tier: str) -> bool:
    return tier == "thorough"


def cal_ids() -> list[str]:
    from pyoda_time import CalendarSystem

    return list(CalendarSystem.ids)


def need(cond: bool, sig: str, msg: str = "") -> None:
    if not cond:
        raise Mismatch(sig, msg)


def fields(d) -> tuple[int, int, int]:
    return d.year, d.month, d.day


# ---------------------------------------------------------------------------------------------------------------
# single-case evaluation (also the replay entry point)
# ---------------------------------------------------------------------------------------------------------------


def eval_case(kind: str, c: dict) -> CaseInfo:
    return globals()["_k_" + kind](c)


def _cal(c):
    from pyoda_time import CalendarSystem

    return CalendarSystem.for_id(c["cal"])


def _k_day(c) -> CaseInfo:
    """One day number n (and its successor) of one calendar."""
    from pyoda_time import LocalDate

    cal = _cal(c)
    n = c["n"]
    if not cal._min_days <= n <= cal._max_days:
        raise InvalidCase
    d = LocalDate._ctor(days_since_epoch=n, calendar=cal)
    check_day(cal, n, d)
    if n < cal._max_days:
        e = LocalDate._ctor(days_since_epoch=n + 1, calendar=cal)
        check_day(cal, n + 1, e)
        check_succ(cal, d, e, None)
        need(d.plus_days(1) == e, f"plus_days1/{cal.id}", f"{fields(d)} +1 -> {fields(d.plus_days(1))} expected {fields(e)}")
    return CaseInfo(True, "day")


def check_day(cal, n: int, d) -> None:
    from pyoda_time import LocalDate

    cid = cal.id
    y, m, dd = d.year, d.month, d.day
    try:
        d2 = LocalDate(y, m, dd, cal)
    except ValueError as e:
        raise Mismatch(f"day->ymd-not-accepted/{cid}", f"day {n} -> {(y, m, dd)} rejected: {e}") from None
    n2 = d2._days_since_epoch
    need(n2 == n, f"roundtrip-day/{cid}", f"day {n} -> {(y, m, dd)} -> {n2}")
    need(d2 == d and not (d2 != d), f"roundtrip-eq/{cid}", f"day {n}")
    need(cal.min_year <= y <= cal.max_year, f"year-out-of-advertised-range/{cid}", f"day {n} -> year {y}")
    miy = cal.get_months_in_year(y)
    need(1 <= m <= miy, f"month-range/{cid}", f"day {n} -> {(y, m, dd)} months_in_year={miy}")
    dim = cal.get_days_in_month(y, m)
    need(1 <= dd <= dim, f"day-range/{cid}", f"day {n} -> {(y, m, dd)} days_in_month={dim}")
    need(d.calendar is cal, f"calendar-identity/{cid}")


def check_succ(cal, d, e, cmp_fn) -> None:
    cid = cal.id
    ok = (d < e) and (d <= e) and not (d > e) and not (d >= e) and d != e and d.compare_to(e) < 0 and e.compare_to(d) > 0
    ok = ok and cal._compare(d._year_month_day, e._year_month_day) < 0
    need(ok, f"order/{cid}", f"{fields(d)} then {fields(e)}")


def _k_year(c) -> CaseInfo:
    """Tables of one year: year length = distance between year starts = sum of month lengths; era round trip."""
    from pyoda_time import LocalDate

    cal = _cal(c)
    y = c["y"]
    if not cal.min_year <= y <= cal.max_year:
        raise InvalidCase
    cid = cal.id
    # the first day of year y, found through the day->date direction from any date in the year
    miy = cal.get_months_in_year(y)
    some = LocalDate(y, 1, 1, cal)
    start = some._days_since_epoch - (some.day_of_year - 1)
    first = LocalDate._ctor(days_since_epoch=start, calendar=cal)
    need(first.year == y and first.day_of_year == 1 and first.day == 1, f"year-start/{cid}", f"year {y}: day {start} is {fields(first)} doy {first.day_of_year}")
    if start > cal._min_days:
        before = LocalDate._ctor(days_since_epoch=start - 1, calendar=cal)
        need(before.year == y - 1, f"year-start-predecessor/{cid}", f"year {y}: day {start - 1} is {fields(before)}")
    else:
        need(y == cal.min_year, f"min-days-not-first-day-of-min-year/{cid}", f"year {y} starts at min_days")
    diy = cal.get_days_in_year(y)
    last_n = start + diy - 1
    if y < cal.max_year:
        nxt = LocalDate._ctor(days_since_epoch=last_n + 1, calendar=cal)
        need(nxt.year == y + 1 and nxt.day_of_year == 1, f"year-length-vs-next-start/{cid}", f"year {y}: start {start} + get_days_in_year {diy} -> {fields(nxt)} doy {nxt.day_of_year}")
    else:
        need(last_n == cal._max_days, f"max-days-not-last-day-of-max-year/{cid}", f"last day of year {y} is {last_n}, _max_days={cal._max_days}")
    last = LocalDate._ctor(days_since_epoch=last_n, calendar=cal)
    need(last.year == y and last.day_of_year == diy, f"year-last-day/{cid}", f"year {y}: day {last_n} is {fields(last)} doy {last.day_of_year} diy {diy}")
    total = sum(cal.get_days_in_month(y, m) for m in range(1, miy + 1))
    need(total == diy, f"sum-of-months/{cid}", f"year {y}: sum {total} != days_in_year {diy}")
    leap = cal.is_leap_year(y)
    need(isinstance(leap, bool), f"is_leap_year-type/{cid}")
    # eras
    eras = list(cal.eras())
    need(len(eras) >= 1, f"eras-empty/{cid}")
    era = first.era
    need(era in eras, f"era-not-listed/{cid}", f"year {y}: {era}")
    yoe = first.year_of_era
    need(cal.get_absolute_year(yoe, era) == y, f"era-roundtrip/{cid}", f"year {y}: yoe {yoe} era {era} -> {cal.get_absolute_year(yoe, era)}")
    lo, hi = cal.get_min_year_of_era(era), cal.get_max_year_of_era(era)
    need(min(lo, hi) <= yoe <= max(lo, hi), f"year-of-era-range/{cid}", f"year {y}: yoe {yoe} not in [{lo},{hi}]")
    via_era = LocalDate(yoe, first.month, 1, cal, era)
    need(via_era == first, f"ctor-with-era/{cid}", f"year {y}")
    return CaseInfo(True, "year")


def _k_eras(c) -> CaseInfo:
    cal = _cal(c)
    cid = cal.id
    eras = list(cal.eras())
    need(len(eras) >= 1, f"eras-empty/{cid}")
    for era in eras:
        for yoe in (cal.get_min_year_of_era(era), cal.get_max_year_of_era(era)):
            ay = cal.get_absolute_year(yoe, era)
            need(cal.min_year <= ay <= cal.max_year, f"era-bounds-outside-years/{cid}", f"{era} yoe {yoe} -> {ay}")
    # an era the calendar does not list is a field value outside its range: rejected, never mapped
    # (two of the seven eras are both abbreviated "AM": identity, not the name, is what the calendar lists)
    from pyoda_time import LocalDate, YearMonth
    from pyoda_time.calendars import Era

    for nm in ("common", "before_common", "anno_martyrum", "anno_mundi", "anno_hegirae", "anno_persico", "bahai"):
        foreign = getattr(Era, nm)
        if any(foreign is e for e in eras):
            continue
        for what, fn in (
            ("get_absolute_year", lambda: cal.get_absolute_year(1, foreign)),
            ("get_min_year_of_era", lambda: cal.get_min_year_of_era(foreign)),
            ("get_max_year_of_era", lambda: cal.get_max_year_of_era(foreign)),
            ("LocalDate(era=)", lambda: LocalDate(1, 1, 1, cal, foreign)),
            ("YearMonth(era=)", lambda: YearMonth(era=foreign, year_of_era=1, month=1, calendar=cal)),
        ):
            try:
                r = fn()
            except ValueError:
                continue
            raise Mismatch(f"foreign-era-accepted/{cid}/{what}", f"era {nm} ({foreign}) -> {r!r:.60}")
    return CaseInfo(True, "eras")


def _valid_triple(cal, y: int, m: int, d: int) -> bool:
    if not cal.min_year <= y <= cal.max_year:
        return False
    if not 1 <= m <= cal.get_months_in_year(y):
        return False
    return 1 <= d <= cal.get_days_in_month(y, m)


def _k_triple(c) -> CaseInfo:
    from pyoda_time import LocalDate

    cal = _cal(c)
    cid = cal.id
    y, m, d = c["y"], c["m"], c["d"]
    valid = _valid_triple(cal, y, m, d)
    try:
        ld = LocalDate(y, m, d, cal)
    except ValueError:
        need(not valid, f"valid-triple-rejected/{cid}", f"{(y, m, d)}")
        return CaseInfo(True, "triple:invalid")
    need(valid, f"invalid-triple-accepted/{cid}", f"{(y, m, d)} accepted (min_year {cal.min_year} max_year {cal.max_year})")
    need(fields(ld) == (y, m, d), f"triple-fields/{cid}", f"{(y, m, d)} -> {fields(ld)}")
    n = ld._days_since_epoch
    need(cal._min_days <= n <= cal._max_days, f"triple-day-outside-range/{cid}", f"{(y, m, d)} -> day {n} not in [{cal._min_days},{cal._max_days}]")
    back = LocalDate._ctor(days_since_epoch=n, calendar=cal)
    need(fields(back) == (y, m, d), f"triple-roundtrip/{cid}", f"{(y, m, d)} -> {n} -> {fields(back)}")
    return CaseInfo(True, "triple:valid")


def _k_outside(c) -> CaseInfo:
    from pyoda_time import LocalDate

    cal = _cal(c)
    n = c["n"]
    if cal._min_days <= n <= cal._max_days:
        raise InvalidCase
    try:
        d = LocalDate._ctor(days_since_epoch=n, calendar=cal)
    except ValueError:
        return CaseInfo(True, "outside")
    raise Mismatch(f"day-outside-range-accepted/{cal.id}", f"day {n} -> {fields(d)}")


def _k_cross(c) -> CaseInfo:
    from pyoda_time import CalendarSystem, LocalDate

    cal = _cal(c)
    other = CalendarSystem.for_id(c["other"])
    n = c["n"]
    if not (cal._min_days <= n <= cal._max_days):
        raise InvalidCase
    d = LocalDate._ctor(days_since_epoch=n, calendar=cal)
    inside = other._min_days <= n <= other._max_days
    try:
        o = d.with_calendar(other)
    except ValueError:
        need(not inside, f"with_calendar-raised/{cal.id}->{other.id}", f"day {n}")
        return CaseInfo(True, "cross:outside")
    need(inside, f"with_calendar-accepted-outside/{cal.id}->{other.id}", f"day {n}")
    need(o._days_since_epoch == n and o.calendar is other, f"with_calendar-day/{cal.id}->{other.id}", f"day {n} -> {o._days_since_epoch}")
    back = o.with_calendar(cal)
    need(back == d and fields(back) == fields(d), f"with_calendar-roundtrip/{cal.id}->{other.id}", f"day {n}")
    return CaseInfo(True, "cross")


# ---------------------------------------------------------------------------------------------------------------
# tight sweep
# ---------------------------------------------------------------------------------------------------------------


def sweep(ctx: Ctx, cal, lo: int, hi: int, cross_ids: list[str], cross_phase: int, count_first: bool = True) -> None:
    """Contiguous sweep of day numbers [lo, hi] with stateful consistency checks between consecutive days."""
    from pyoda_time import CalendarSystem, LocalDate

    cid = cal.id
    mk = LocalDate._ctor
    prev = None
    py = pm = pd = 0
    year_start = None
    months_seen = 0
    cur_dim = None
    nt = 0
    total = hi - lo + 1
    others = [CalendarSystem.for_id(i) for i in cross_ids]
    cmin, cmax = cal._min_days, cal._max_days
    fails = 0
    for n in range(lo, hi + 1):
        try:
            d = mk(days_since_epoch=n, calendar=cal)
            y, m, dd = d.year, d.month, d.day
            boundary = False
            if prev is None or y != py or m != pm:
                # (re)validate fields against tables on every month change
                check_day(cal, n, d)
                cur_dim = cal.get_days_in_month(y, m)
                boundary = True
            else:
                d2 = LocalDate(y, m, dd, cal)
                if d2._days_since_epoch != n or d2 != d:
                    raise Mismatch(f"roundtrip-day/{cid}", f"day {n} -> {(y, m, dd)} -> {d2._days_since_epoch}")
                if not 1 <= dd <= cur_dim:
                    raise Mismatch(f"day-range/{cid}", f"day {n} -> {(y, m, dd)} days_in_month={cur_dim}")
            if prev is not None:
                if not (prev < d) or prev.compare_to(d) >= 0 or d == prev or cal._compare(prev._year_month_day, d._year_month_day) >= 0:
                    raise Mismatch(f"order/{cid}", f"{(py, pm, pd)} then {(y, m, dd)} at day {n}")
                if y == py and m == pm:
                    if dd != pd + 1:
                        raise Mismatch(f"day-step/{cid}", f"{(py, pm, pd)} then {(y, m, dd)}")
                else:
                    if dd != 1 or pd != cal.get_days_in_month(py, pm):
                        raise Mismatch(f"month-change/{cid}", f"{(py, pm, pd)} (dim {cal.get_days_in_month(py, pm)}) then {(y, m, dd)}")
                    if y == py:
                        months_seen += 1
                    else:
                        if y != py + 1:
                            raise Mismatch(f"year-step/{cid}", f"{(py, pm, pd)} then {(y, m, dd)}")
                        if year_start is not None:
                            if n - year_start != cal.get_days_in_year(py):
                                raise Mismatch(f"year-length/{cid}", f"year {py}: {n - year_start} days by year starts, get_days_in_year={cal.get_days_in_year(py)}")
                            if months_seen != cal.get_months_in_year(py):
                                raise Mismatch(f"months-in-year/{cid}", f"year {py}: saw {months_seen}, reported {cal.get_months_in_year(py)}")
                        year_start = n
                        months_seen = 1
                    if prev.plus_days(1) != d:
                        raise Mismatch(f"plus_days1/{cid}", f"{(py, pm, pd)} + 1 day != {(y, m, dd)}")
            if year_start is not None:
                if d.day_of_year != n - year_start + 1:
                    raise Mismatch(f"day-of-year/{cid}", f"day {n} {(y, m, dd)}: day_of_year {d.day_of_year}, expected {n - year_start + 1}")
            if (boundary or dd <= 2 or dd >= cur_dim - 1 or n - cmin <= 2 or cmax - n <= 2) and (count_first or n != lo):
                nt += 1
            if (n + cross_phase) % 5 == 0 or boundary:
                for other in others:
                    if other._min_days <= n <= other._max_days:
                        o = d.with_calendar(other)
                        if o._days_since_epoch != n or o.with_calendar(cal) != d:
                            raise Mismatch(f"with_calendar-roundtrip/{cid}->{other.id}", f"day {n}")
            prev, py, pm, pd = d, y, m, dd
        except Mismatch as mm:
            ctx.fail("day", {"cal": cid, "n": n}, mm.sig, mm.msg)
            prev = None
            year_start = None
            fails += 1
        except Exception as e:  # noqa: BLE001
            ctx.fail_exc("day", {"cal": cid, "n": n}, e)
            prev = None
            year_start = None
            fails += 1
    ctx.bulk(total if count_first else total - 1, nt, f"sweep:{cid}")
    ctx.sample("day", {"cal": cid, "n": lo, "sweep_to": hi}, True)


def task_sweep(ctx: Ctx, cal: str, ranges: list[list[int]], cross: list[str], phase: int, count_first: bool = True) -> None:
    from pyoda_time import CalendarSystem

    c = CalendarSystem.for_id(cal)
    for lo, hi in ranges:
        sweep(ctx, c, lo, hi, cross, phase, count_first)


def task_years(ctx: Ctx, cal: str, ylo: int, yhi: int) -> None:
    for y in range(ylo, yhi + 1):
        ctx.case("year", {"cal": cal, "y": y})


def task_misc(ctx: Ctx, cal: str, years: list[int]) -> None:
    from pyoda_time import CalendarSystem

    c = CalendarSystem.for_id(cal)
    ctx.case("eras", {"cal": cal})
    for k in (1, 2, 3, 10, 1000, 10**6):
        ctx.case("outside", {"cal": cal, "n": c._min_days - k})
        ctx.case("outside", {"cal": cal, "n": c._max_days + k})
    ids = cal_ids()
    nxt = ids[(ids.index(cal) + 1) % len(ids)]
    for n in (c._min_days, c._min_days + 1, c._max_days - 1, c._max_days, 0, -1, 1):
        if c._min_days <= n <= c._max_days:
            ctx.case("cross", {"cal": cal, "other": "ISO", "n": n})
            ctx.case("cross", {"cal": cal, "other": nxt, "n": n})
    for y in years:
        if c.min_year <= y <= c.max_year:
            miy = c.get_months_in_year(y)
            months = list(range(-1, miy + 3)) + [31, 32, 33, 64]
        else:
            months = [0, 1, 2, 12, 13, 14, 19, 20]
        for m in months:
            if c.min_year <= y <= c.max_year and 1 <= m <= c.get_months_in_year(y):
                dim = c.get_days_in_month(y, m)
                days = sorted({-1, 0, 1, 2, dim - 1, dim, dim + 1, dim + 2, 63, 64, 65, 128})
            else:
                days = [0, 1, 29, 30, 31, 64]
            for d in days:
                ctx.case("triple", {"cal": cal, "y": y, "m": m, "d": d})


def _year_start_guess(c, y: int) -> int:
    from pyoda_time import LocalDate

    d = LocalDate(y, 1, 1, c)
    return d._days_since_epoch - (d.day_of_year - 1)


def tasks(tier: str, seed: int) -> list[Task]:
    from pyoda_time import CalendarSystem

    out: list[Task] = []
    ids = cal_ids()
    for ci, cid in enumerate(ids):
        c = CalendarSystem.for_id(cid)
        lo, hi = c._min_days, c._max_days
        nxt = ids[(ci + 1) % len(ids)]
        cross = ["ISO", nxt] if cid != "ISO" else [nxt]
        phase = sub_seed(seed, "phase", cid) % 5
        nyears = c.max_year - c.min_year + 1
        # year tables, all years, both tiers
        ychunk = max(1, (nyears + 3) // 4)
        for y0 in range(c.min_year, c.max_year + 1, ychunk):
            out.append(Task("task_years", {"cal": cid, "ylo": y0, "yhi": min(c.max_year, y0 + ychunk - 1)}, f"years-{cid}-{y0}"))
        # triples
        if tier == "thorough":
            ys = list(range(c.min_year - 2, c.max_year + 3))
        else:
            off = sub_seed(seed, "triples", cid) % 37
            ys = sorted(set(list(range(c.min_year - 2, c.min_year + 3)) + list(range(c.max_year - 2, c.max_year + 3))
                            + list(range(c.min_year + off, c.max_year, 37)) + [-40000, 40000, 2**15, -(2**15)]))
        tchunk = max(1, (len(ys) + 3) // 4)
        for i in range(0, len(ys), tchunk):
            out.append(Task("task_misc", {"cal": cid, "years": ys[i : i + tchunk]}, f"misc-{cid}-{i}"))
        # day sweeps
        if tier == "thorough":
            n_chunks = 14
            size = (hi - lo) // n_chunks + 1
            for k in range(n_chunks):
                a = lo + k * size
                b = min(hi, a + size)  # one day overlap so that consecutive-day checks cross chunk borders
                if a <= hi:
                    out.append(Task("task_sweep", {"cal": cid, "ranges": [[a, b]], "cross": cross, "phase": phase, "count_first": k == 0}, f"sweep-{cid}-{k}"))
        else:
            # (a) windows around every year boundary, (b) a twelfth of all 16-year blocks, (c) both ends
            ranges: list[list[int]] = []
            pick = sub_seed(seed, "blocks", cid) % 12
            y = c.min_year
            starts = {}
            # year starts by chaining get_days_in_year from min_days (validated independently by task_years)
            s = lo
            for y in range(c.min_year, c.max_year + 1):
                starts[y] = s
                try:
                    s += c.get_days_in_year(y)
                except Exception:  # noqa: BLE001
                    break
            years = sorted(starts)
            for bi, i in enumerate(range(0, len(years), 16)):
                blk = years[i : i + 16]
                full = bi % 12 == pick or i == 0 or i + 16 >= len(years)
                if full:
                    a = max(lo, starts[blk[0]] - 2)
                    endy = blk[-1] + 1
                    b = min(hi, (starts[endy] if endy in starts else hi) + 2)
                    ranges.append([a, b])
                else:
                    for yy in blk:
                        a, b = max(lo, starts[yy] - 2), min(hi, starts[yy] + 2)
                        ranges.append([a, b])
            ranges.append([max(lo, hi - 800), hi])
            ranges.append([lo, min(hi, lo + 800)])
            # merge overlapping ranges (so every day is visited once) + split into 6 tasks
            ranges.sort()
            merged: list[list[int]] = []
            for a, b in ranges:
                if merged and a <= merged[-1][1] + 1:
                    merged[-1][1] = max(merged[-1][1], b)
                else:
                    merged.append([a, b])
            ranges = merged
            per = max(1, (len(ranges) + 5) // 6)
            for k in range(0, len(ranges), per):
                out.append(Task("task_sweep", {"cal": cid, "ranges": ranges[k : k + per], "cross": cross, "phase": phase}, f"sweep-{cid}-{k}"))
    return out
