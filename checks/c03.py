"""C03 - Duration / Instant / Offset do exact integer arithmetic on documented ranges.

Oracle: Python ints (nanoseconds; seconds for Offset) plus the documented closed ranges. "raises" means
ValueError / OverflowError (ArithmeticError for a zero divisor).
"""

from __future__ import annotations

import datetime as _dt
import math
from fractions import Fraction

from hypothesis import strategies as st

from harness.core import CaseInfo, Ctx, InvalidCase, Mismatch, Task, sub_seed
from harness.gen import ints_biased, run_hypothesis

PROPERTY = "C03"
LEVEL = "exploration"
RULE = (
    "Hypothesis-generated ints biased to unit multiples +/-1, range edges and 10% beyond the range, evaluated against "
    "an int model of nanoseconds (seconds for Offset); Offset's unary domain (129601 values) enumerated; saturating "
    "offset application (Instant._safe_plus / _LocalInstant._safe_minus) on the first/last day and landing exactly on "
    "the day boundary; Offset.from_timedelta within 2 s of +/-18 h. "
    "Non-trivial: operands of opposite sign, a result crossing a day boundary, a non-zero sub-unit remainder, or a "
    "value within two units of a range edge / out of range. Distinct = distinct (kind, case) hash."
)
ASSUMPTIONS = [
    "float accessors total_* are compared with a tolerance of 4 ulp at the magnitude of their two-term evaluation",
    "float factory arguments are only asserted when value*unit is exactly representable",
]

NS = 1
TICK = 100
US = 10**3
MS = 10**6
SEC = 10**9
MIN = 60 * SEC
HOUR = 3600 * SEC
DAY = 86400 * SEC
WEEK = 7 * DAY
UNITS = {
    "days": DAY,
    "hours": HOUR,
    "minutes": MIN,
    "seconds": SEC,
    "milliseconds": MS,
    "microseconds": US,
    "ticks": TICK,
    "nanoseconds": NS,
}
DUR_MAX_DAYS = (1 << 30) - 1
DUR_MIN = -(1 << 30) * DAY
DUR_MAX = (DUR_MAX_DAYS + 1) * DAY - 1
INST_MIN = -4371222 * DAY
INST_MAX = (2932896 + 1) * DAY - 1
OFF_MAX = 18 * 3600
RAISES = (ValueError, OverflowError)


def tdiv(a: int, b: int) -> int:
    q = abs(a) // abs(b)
    return q if (a >= 0) == (b >= 0) else -q


def trem(a: int, b: int) -> int:
    return a - tdiv(a, b) * b


class Raised:
    def __repr__(self) -> str:
        return "<raises>"


RAISED = Raised()


def call(fn, *a, allowed=RAISES):
    try:
        return fn(*a)
    except allowed:
        return RAISED


def need(cond: bool, sig: str, msg: str = "") -> None:
    if not cond:
        raise Mismatch(sig, msg)


def _dur(ns: int):
    """Build a Duration for model value ns (must be in range) and check it is what it claims to be."""
    from pyoda_time import Duration

    d = Duration.from_nanoseconds(ns)
    check_dur(d, ns, "from_nanoseconds")
    return d


def check_dur(d, ns: int, what: str) -> None:
    from pyoda_time import Duration

    need(isinstance(d, Duration), f"{what}/type", f"{type(d)}")
    fd, nod = divmod(ns, DAY)
    need(
        d._floor_days == fd and d._nanosecond_of_floor_day == nod,
        f"{what}/normal-form",
        f"expected floor_days={fd} nano_of_day={nod}, got {d._floor_days} {d._nanosecond_of_floor_day}",
    )
    need(d.to_nanoseconds() == ns, f"{what}/to_nanoseconds", f"expected {ns} got {d.to_nanoseconds()}")


def in_dur(ns: int) -> bool:
    return DUR_MIN <= ns <= DUR_MAX


def in_inst(ns: int) -> bool:
    return INST_MIN <= ns <= INST_MAX


def check_dur_result(res, model: int, what: str) -> None:
    if in_dur(model):
        need(res is not RAISED, f"{what}/raised-in-range", f"model {model}")
        check_dur(res, model, what)
    else:
        need(res is RAISED, f"{what}/out-of-range-not-raised", f"model {model} got {_safe_ns(res)}")


def _safe_ns(x):
    try:
        return x.to_nanoseconds()
    except Exception:  # noqa: BLE001
        try:
            return x._time_since_epoch.to_nanoseconds()
        except Exception:  # noqa: BLE001
            return "?"


def near_edge(ns: int, lo: int, hi: int, unit: int = DAY) -> bool:
    return ns <= lo + 2 * unit or ns >= hi - 2 * unit


def _close(val: float, exact: Fraction, scale: Fraction, ulps: int = 4) -> bool:
    if not isinstance(val, (float, int)):
        return False
    tol = ulps * Fraction(math.ulp(float(max(abs(scale), 1))))
    return abs(Fraction(val) - exact) <= tol


# ---------------------------------------------------------------------------------------------------------------
def eval_case(kind: str, c: dict) -> CaseInfo:
    return globals()["_k_" + kind](c)


def _k_dur_unary(c) -> CaseInfo:
    from pyoda_time import Duration

    a = c["a"]
    if not in_dur(a):
        raise InvalidCase
    d = _dur(a)
    days = tdiv(a, DAY)
    nod = a - days * DAY
    need(d.days == days, "days", f"{d.days} != {days}")
    need(d.nanosecond_of_day == nod, "nanosecond_of_day", f"{d.nanosecond_of_day} != {nod}")
    need(d.hours == tdiv(nod, HOUR), "hours", f"{d.hours}")
    need(d.minutes == trem(tdiv(nod, MIN), 60), "minutes", f"{d.minutes}")
    need(d.seconds == trem(tdiv(nod, SEC), 60), "seconds", f"{d.seconds}")
    need(d.milliseconds == trem(tdiv(nod, MS), 1000), "milliseconds", f"{d.milliseconds}")
    need(d.microseconds == trem(tdiv(nod, US), 10**6), "microseconds", f"{d.microseconds}")
    need(d.subsecond_ticks == trem(tdiv(nod, TICK), 10**7), "subsecond_ticks", f"{d.subsecond_ticks}")
    need(d.subsecond_nanoseconds == trem(nod, SEC), "subsecond_nanoseconds", f"{d.subsecond_nanoseconds}")
    need(d.bcl_compatible_ticks == tdiv(a, TICK), "bcl_compatible_ticks", f"{d.bcl_compatible_ticks} != {tdiv(a, TICK)}")
    fd = a // DAY
    for name, unit in (
        ("total_days", DAY),
        ("total_hours", HOUR),
        ("total_minutes", MIN),
        ("total_seconds", SEC),
        ("total_milliseconds", MS),
        ("total_microseconds", US),
        ("total_ticks", TICK),
        ("total_nanoseconds", NS),
    ):
        v = getattr(d, name)
        scale = Fraction((abs(fd) + 1) * DAY, unit)
        need(_close(v, Fraction(a, unit), scale), name, f"{v!r} vs exact {float(Fraction(a, unit))!r}")
    r = call(lambda: -d)
    check_dur_result(r, -a, "neg")
    r = call(Duration.negate, d)
    check_dur_result(r, -a, "negate")
    # round trip through the tick/unit factories where exact
    for uname, unit in UNITS.items():
        if a % unit == 0:
            r = call(getattr(Duration, "from_" + uname), a // unit)
            check_dur_result(r, a, f"from_{uname}")
    nt = a < 0 or a % DAY != 0 and abs(a) > DAY or near_edge(a, DUR_MIN, DUR_MAX)
    return CaseInfo(nt, "dur_unary:neg" if a < 0 else "dur_unary:nonneg")


def _k_dur_factory(c) -> CaseInfo:
    from pyoda_time import Duration

    unit = UNITS[c["unit"]]
    n = c["n"]
    model = n * unit
    r = call(getattr(Duration, "from_" + c["unit"]), n)
    check_dur_result(r, model, f"from_{c['unit']}")
    nt = not in_dur(model) or near_edge(model, DUR_MIN, DUR_MAX) or (n < 0 and model % DAY != 0)
    return CaseInfo(nt, "dur_factory:" + ("out" if not in_dur(model) else "in"))


def _k_dur_float_factory(c) -> CaseInfo:
    from pyoda_time import Duration

    unit = UNITS[c["unit"]]
    m, e = c["m"], c["e"]
    if not (0 <= e <= 40) or abs(m) * unit >= 2**53 or abs(m) >= 2**53:
        raise InvalidCase
    x = float(m) / float(2**e)  # exact
    exact = Fraction(m, 2**e) * unit
    if Fraction(float(exact)) != exact:
        raise InvalidCase
    model = tdiv(exact.numerator, exact.denominator)
    r = call(getattr(Duration, "from_" + c["unit"]), x)
    check_dur_result(r, model, f"from_{c['unit']}(float)")
    return CaseInfo(exact.denominator != 1 or m < 0, "dur_float_factory")


def _k_dur_float_edge(c) -> CaseInfo:
    """Integer-valued float arguments at the ends of a factory's range: a value whose exact product with the unit lies
    in the documented Duration range is accepted (result within a few ulps of the exact product - float inputs are
    approximations), one unit or more outside is rejected."""
    from pyoda_time import Duration

    unit = UNITS[c["unit"]]
    v = c["v"]
    if not isinstance(v, int) or abs(v) > 2**80:
        raise InvalidCase
    x = float(v)
    if int(x) != v:
        raise InvalidCase
    exact = v * unit
    r = call(getattr(Duration, "from_" + c["unit"]), x)
    what = f"from_{c['unit']}(float-edge)"
    if in_dur(exact):
        need(r is not RAISED, f"{what}/raised-in-range", f"{x!r} {c['unit']}")
        got = _safe_ns(r)
        need(isinstance(got, int) and abs(got - exact) * 2**50 <= max(abs(exact), 1), f"{what}/value", f"{x!r} -> {got} vs {exact}")
    else:
        need(r is RAISED, f"{what}/out-of-range-not-raised", f"{x!r} {c['unit']} got {_safe_ns(r)}")
    return CaseInfo(True, "dur_float_edge:" + ("in" if in_dur(exact) else "out"))


def _k_dur_binop(c) -> CaseInfo:
    from pyoda_time import Duration

    a, b = c["a"], c["b"]
    if not (in_dur(a) and in_dur(b)):
        raise InvalidCase
    A, B = _dur(a), _dur(b)
    check_dur_result(call(lambda: A + B), a + b, "add")
    check_dur_result(call(Duration.add, A, B), a + b, "add()")
    check_dur_result(call(A.plus, B), a + b, "plus")
    check_dur_result(call(lambda: A - B), a - b, "sub")
    check_dur_result(call(Duration.subtract, A, B), a - b, "subtract()")
    check_dur_result(call(A.minus, B), a - b, "minus")
    need((A == B) == (a == b), "eq")
    need((A != B) == (a != b), "ne")
    need((A < B) == (a < b), "lt")
    need((A <= B) == (a <= b), "le")
    need((A > B) == (a > b), "gt")
    need((A >= B) == (a >= b), "ge")
    ct = A.compare_to(B)
    need((ct > 0) - (ct < 0) == (a > b) - (a < b), "compare_to", f"{ct}")
    need(A.equals(B) == (a == b), "equals")
    if a == b:
        need(hash(A) == hash(B), "hash")
    need(Duration.max(A, B).to_nanoseconds() == max(a, b), "max")
    need(Duration.min(A, B).to_nanoseconds() == min(a, b), "min")
    if b != 0:
        q = A / B
        need(_close(q, Fraction(a, b), Fraction(a, b), 2), "div-dur", f"{q!r}")
    nt = (
        (a < 0) != (b < 0)
        or (a + b) // DAY != a // DAY + b // DAY
        or not in_dur(a + b)
        or not in_dur(a - b)
        or near_edge(a + b, DUR_MIN, DUR_MAX)
    )
    return CaseInfo(nt, "dur_binop:" + ("overflow" if not (in_dur(a + b) and in_dur(a - b)) else "in"))


def _k_dur_scale(c) -> CaseInfo:
    from pyoda_time import Duration

    a, k = c["a"], c["k"]
    if not in_dur(a):
        raise InvalidCase
    A = _dur(a)
    check_dur_result(call(lambda: A * k), a * k, "mul")
    check_dur_result(call(lambda: k * A), a * k, "rmul")
    check_dur_result(call(Duration.multiply, A, k), a * k, "multiply()")
    if k == 0:
        r = call(lambda: A / k, allowed=(ArithmeticError, ValueError))
        need(r is RAISED, "div-zero-not-raised")
    else:
        check_dur_result(call(lambda: A / k), tdiv(a, k), "div")
        check_dur_result(call(Duration.divide, A, k), tdiv(a, k), "divide()")
    nt = (a < 0) != (k < 0) or (k != 0 and a % k != 0) or not in_dur(a * k)
    return CaseInfo(nt, "dur_scale:" + ("overflow" if not in_dur(a * k) else "in"))


def _inst(ns: int):
    from pyoda_time import Instant, PyodaConstants

    i = PyodaConstants.UNIX_EPOCH.plus_nanoseconds(ns)
    check_inst(i, ns, "plus_nanoseconds")
    return i


def check_inst(i, ns: int, what: str) -> None:
    from pyoda_time import Instant

    need(isinstance(i, Instant), f"{what}/type", f"{type(i)}")
    check_dur(i._time_since_epoch, ns, what)


def check_inst_result(res, model: int, what: str) -> None:
    if in_inst(model):
        need(res is not RAISED, f"{what}/raised-in-range", f"model {model}")
        check_inst(res, model, what)
    else:
        need(res is RAISED, f"{what}/out-of-range-not-raised", f"model {model} got {_safe_ns(res)}")


def _k_inst_factory(c) -> CaseInfo:
    from pyoda_time import Instant

    unit = {"seconds": SEC, "milliseconds": MS, "ticks": TICK}[c["unit"]]
    n = c["n"]
    model = n * unit
    r = call(getattr(Instant, "from_unix_time_" + c["unit"]), n)
    check_inst_result(r, model, f"from_unix_time_{c['unit']}")
    if r is not RAISED:
        need(getattr(r, "to_unix_time_" + c["unit"])() == n, f"to_unix_time_{c['unit']}/roundtrip")
    return CaseInfo(not in_inst(model) or near_edge(model, INST_MIN, INST_MAX) or n < 0, "inst_factory")


def _k_inst_unary(c) -> CaseInfo:
    from pyoda_time import Instant

    i = c["i"]
    if not in_inst(i):
        raise InvalidCase
    I = _inst(i)
    need(I.to_unix_time_seconds() == i // SEC, "to_unix_time_seconds", f"{I.to_unix_time_seconds()} != {i // SEC}")
    need(I.to_unix_time_milliseconds() == i // MS, "to_unix_time_milliseconds", f"{I.to_unix_time_milliseconds()}")
    need(I.to_unix_time_ticks() == i // TICK, "to_unix_time_ticks", f"{I.to_unix_time_ticks()} != {i // TICK}")
    need(I._days_since_epoch == i // DAY and I._nanosecond_of_day == i % DAY, "days/nanos")
    need(Instant.min_value._time_since_epoch.to_nanoseconds() == INST_MIN, "min_value")
    need(Instant.max_value._time_since_epoch.to_nanoseconds() == INST_MAX, "max_value")
    return CaseInfo(i < 0 and i % SEC != 0 or near_edge(i, INST_MIN, INST_MAX), "inst_unary")


def _k_inst_arith(c) -> CaseInfo:
    from pyoda_time import Instant

    i, d = c["i"], c["d"]
    if not (in_inst(i) and in_dur(d)):
        raise InvalidCase
    I, D = _inst(i), _dur(d)
    al = (ValueError, OverflowError)
    check_inst_result(call(lambda: I + D, allowed=al), i + d, "add")
    check_inst_result(call(Instant.add, I, D, allowed=al), i + d, "add()")
    check_inst_result(call(I.plus, D, allowed=al), i + d, "plus")
    check_inst_result(call(lambda: I - D, allowed=al), i - d, "sub")
    check_inst_result(call(I.minus, D, allowed=al), i - d, "minus")
    check_inst_result(call(Instant.subtract, I, D, allowed=al), i - d, "subtract()")
    check_inst_result(call(I.plus_nanoseconds, d, allowed=al), i + d, "plus_nanoseconds")
    t = tdiv(d, TICK)
    check_inst_result(call(I.plus_ticks, t, allowed=al), i + t * TICK, "plus_ticks")
    nt = not in_inst(i + d) or not in_inst(i - d) or (i + d) // DAY != i // DAY or d < 0
    return CaseInfo(nt, "inst_arith:" + ("overflow" if not (in_inst(i + d) and in_inst(i - d)) else "in"))


def _k_inst_diff(c) -> CaseInfo:
    from pyoda_time import Instant

    a, b = c["a"], c["b"]
    if not (in_inst(a) and in_inst(b)):
        raise InvalidCase
    A, B = _inst(a), _inst(b)
    check_dur(A - B, a - b, "inst-sub")
    check_dur(A.minus(B), a - b, "inst-minus")
    check_dur(Instant.subtract(A, B), a - b, "inst-subtract()")
    need((A == B) == (a == b), "eq")
    need((A != B) == (a != b), "ne")
    need((A < B) == (a < b), "lt")
    need((A <= B) == (a <= b), "le")
    need((A > B) == (a > b), "gt")
    need((A >= B) == (a >= b), "ge")
    ct = A.compare_to(B)
    need((ct > 0) - (ct < 0) == (a > b) - (a < b), "compare_to", f"{ct}")
    if a == b:
        need(hash(A) == hash(B), "hash")
    need(Instant.max(A, B)._time_since_epoch.to_nanoseconds() == max(a, b), "max")
    need(Instant.min(A, B)._time_since_epoch.to_nanoseconds() == min(a, b), "min")
    return CaseInfo((a < 0) != (b < 0) or a // DAY == b // DAY or abs(a - b) < SEC, "inst_diff")


def _k_inst_utc(c) -> CaseInfo:
    from pyoda_time import Instant

    y, m, d, h, mi, s = c["y"], c["m"], c["d"], c["h"], c["mi"], c["s"]
    try:
        ref = _dt.datetime(y, m, d, h, mi, s)
        model = ((ref.date().toordinal() - 719163) * 86400 + h * 3600 + mi * 60 + s) * SEC
    except ValueError:
        model = None
        if not (1 <= y <= 9999):
            raise InvalidCase from None
    r = call(Instant.from_utc, y, m, d, h, mi, s)
    if model is None:
        need(r is RAISED, "from_utc/invalid-fields-accepted", f"{c}")
    else:
        need(r is not RAISED, "from_utc/raised", f"{c}")
        check_inst(r, model, "from_utc")
    return CaseInfo(model is None or (m == 2 and d >= 28) or y in (1, 9999), "inst_utc")


def _off(s: int):
    from pyoda_time import Offset

    o = Offset.from_seconds(s)
    need(o.seconds == s, "from_seconds/seconds", f"{o.seconds} != {s}")
    return o


def check_off_result(res, model: int, what: str) -> None:
    from pyoda_time import Offset

    if -OFF_MAX <= model <= OFF_MAX:
        need(res is not RAISED, f"{what}/raised-in-range", f"model {model}")
        need(isinstance(res, Offset) and res.seconds == model, f"{what}/value", f"{getattr(res, 'seconds', res)} != {model}")
    else:
        need(res is RAISED, f"{what}/out-of-range-not-raised", f"model {model} got {getattr(res, 'seconds', res)}")


def off_unary(s: int) -> None:
    from pyoda_time import Offset

    o = _off(s)
    need(o.milliseconds == s * 1000, "milliseconds")
    need(o.ticks == s * 10**7, "ticks")
    need(o.nanoseconds == s * SEC, "nanoseconds")
    need((-o).seconds == -s and Offset.negate(o).seconds == -s, "neg")
    need((+o).seconds == s, "pos")
    td = o.to_timedelta()
    need(td == _dt.timedelta(seconds=s), "to_timedelta")
    need(Offset.from_timedelta(td).seconds == s, "from_timedelta")
    need(hash(o) == hash(Offset.from_seconds(s)), "hash")


def _k_off_unary(c) -> CaseInfo:
    s = c["s"]
    if not -OFF_MAX <= s <= OFF_MAX:
        raise InvalidCase
    off_unary(s)
    return CaseInfo(True, "off_unary")


def _k_off_factory(c) -> CaseInfo:
    from pyoda_time import Offset

    unit_name, n = c["unit"], c["n"]
    per_sec = {"seconds": 1, "milliseconds": 1000, "ticks": 10**7, "nanoseconds": SEC, "timedelta": 10**6}
    if unit_name == "timedelta":
        # documented: fractional seconds truncated; raises when the timedelta itself is outside +/- 18 hours
        import datetime

        if abs(n) > 10**6 * 86400 * 400:
            raise InvalidCase
        ok = -OFF_MAX * 10**6 <= n <= OFF_MAX * 10**6
        r = call(Offset.from_timedelta, datetime.timedelta(microseconds=n))
        check_off_result(r, tdiv(n, 10**6) if ok else 10**9, "from_timedelta")
        return CaseInfo(not ok or n % 10**6 != 0 or abs(n) >= (OFF_MAX - 2) * 10**6, "off_factory")
    if unit_name == "hours":
        model = n * 3600
        ok = -18 <= n <= 18
    else:
        u = per_sec[unit_name]
        ok = -OFF_MAX * u <= n <= OFF_MAX * u
        model = tdiv(n, u)
    r = call(getattr(Offset, "from_" + unit_name), n)
    check_off_result(r, model if ok else 10**9, f"from_{unit_name}")
    nt = not ok or (unit_name not in ("hours", "seconds") and n % per_sec[unit_name] != 0) or abs(model) >= OFF_MAX - 2
    return CaseInfo(nt, "off_factory")


def _k_off_hm(c) -> CaseInfo:
    from pyoda_time import Offset

    h, m = c["h"], c["m"]
    model = h * 3600 + m * 60
    check_off_result(call(Offset.from_hours_and_minutes, h, m), model, "from_hours_and_minutes")
    return CaseInfo((h < 0) != (m < 0) or abs(model) >= OFF_MAX - 120, "off_hm")


def _k_off_binop(c) -> CaseInfo:
    from pyoda_time import Offset

    a, b = c["a"], c["b"]
    if not (-OFF_MAX <= a <= OFF_MAX and -OFF_MAX <= b <= OFF_MAX):
        raise InvalidCase
    A, B = _off(a), _off(b)
    check_off_result(call(lambda: A + B), a + b, "add")
    check_off_result(call(Offset.add, A, B), a + b, "add()")
    check_off_result(call(A.plus, B), a + b, "plus")
    check_off_result(call(lambda: A - B), a - b, "sub")
    check_off_result(call(Offset.subtract, A, B), a - b, "subtract()")
    check_off_result(call(A.minus, B), a - b, "minus")
    need((A == B) == (a == b) and (A != B) == (a != b), "eq")
    need((A < B) == (a < b) and (A <= B) == (a <= b) and (A > B) == (a > b) and (A >= B) == (a >= b), "order")
    ct = A.compare_to(B)
    need((ct > 0) - (ct < 0) == (a > b) - (a < b), "compare_to")
    need(Offset.max(A, B).seconds == max(a, b) and Offset.min(A, B).seconds == min(a, b), "minmax")
    nt = abs(a + b) > OFF_MAX - 2 or abs(a - b) > OFF_MAX - 2 or (a < 0) != (b < 0)
    return CaseInfo(nt, "off_binop")


def _k_safe(c) -> CaseInfo:
    """Offset application that saturates at the ends of time (the zone code's view of Instant +/- Offset).

    Instant._safe_plus(offset): the local instant i + offset if its day lies in the supported day range, else the
    before-min / after-max sentinel. _LocalInstant._safe_minus(offset) likewise in the other direction. The plain
    _plus/_minus raise instead. Sentinels map to sentinels.
    """
    from pyoda_time import Instant
    from pyoda_time._local_instant import _LocalInstant

    i, sec = c["i"], c["s"]
    if not (in_inst(i) and -OFF_MAX <= sec <= OFF_MAX):
        raise InvalidCase
    off = _off(sec)
    min_day, max_day = INST_MIN // DAY, INST_MAX // DAY
    local = i + sec * SEC
    res = call(_inst(i)._safe_plus, off)
    need(res is not RAISED, "safe_plus/raised", f"instant {i} offset {sec}s")
    if local // DAY < min_day:
        need(res == _LocalInstant.before_min_value() and not res._is_valid, "safe_plus/not-before-min", f"instant {i} offset {sec}s")
    elif local // DAY > max_day:
        need(res == _LocalInstant.after_max_value() and not res._is_valid, "safe_plus/not-after-max", f"instant {i} offset {sec}s")
    else:
        need(res._is_valid and res._time_since_local_epoch.to_nanoseconds() == local, "safe_plus/value", f"instant {i} offset {sec}s: {res._time_since_local_epoch.to_nanoseconds()} != {local}")
        check_dur(res._time_since_local_epoch, local, "safe_plus")
    r2 = call(_inst(i)._plus, off)
    if min_day <= local // DAY <= max_day:
        need(r2 is not RAISED and r2._time_since_local_epoch.to_nanoseconds() == local, "plus(offset)/value", f"instant {i} offset {sec}s")
    else:
        need(r2 is RAISED, "plus(offset)/out-of-range-not-raised", f"instant {i} offset {sec}s")
    # the reverse direction, from the local instant with the same nanosecond count
    li = _LocalInstant._ctor(days=i // DAY, nano_of_day=i % DAY)
    back = i - sec * SEC
    r3 = call(li._safe_minus, off)
    need(r3 is not RAISED, "safe_minus/raised", f"local {i} offset {sec}s")
    if back // DAY < min_day:
        need(r3 == Instant._before_min_value() and not r3._is_valid, "safe_minus/not-before-min", f"local {i} offset {sec}s")
    elif back // DAY > max_day:
        need(r3 == Instant._after_max_value() and not r3._is_valid, "safe_minus/not-after-max", f"local {i} offset {sec}s")
    else:
        need(r3._is_valid, "safe_minus/invalid", f"local {i} offset {sec}s")
        check_inst(r3, back, "safe_minus")
    r4 = call(li._minus, off)
    check_inst_result(r4, back, "minus(offset)")
    # sentinels stay sentinels
    need(Instant._before_min_value()._safe_plus(off) == _LocalInstant.before_min_value(), "safe_plus/sentinel")
    need(Instant._after_max_value()._safe_plus(off) == _LocalInstant.after_max_value(), "safe_plus/sentinel")
    need(_LocalInstant.before_min_value()._safe_minus(off) == Instant._before_min_value(), "safe_minus/sentinel")
    need(_LocalInstant.after_max_value()._safe_minus(off) == Instant._after_max_value(), "safe_minus/sentinel")
    edge = not (min_day <= local // DAY <= max_day and min_day <= back // DAY <= max_day)
    exact = local % DAY == 0 or back % DAY == 0
    return CaseInfo(edge or exact or i // DAY in (min_day, max_day), "safe")


# ---------------------------------------------------------------------------------------------------------------
# tasks
# ---------------------------------------------------------------------------------------------------------------
DUR_UNITS = (TICK, US, MS, SEC, MIN, HOUR, DAY, WEEK)


def dur_ns(beyond: float = 0.0):
    return ints_biased(DUR_MIN, DUR_MAX, DUR_UNITS, beyond)


def inst_ns(beyond: float = 0.0):
    return ints_biased(INST_MIN, INST_MAX, DUR_UNITS, beyond)


def task_hyp(ctx: Ctx, shard: int, n: int) -> None:
    s = sub_seed(ctx.seed, "c03", shard)
    small_dur = ints_biased(-400 * DAY, 400 * DAY, DUR_UNITS)
    any_dur = st.one_of(dur_ns(), small_dur)
    any_inst = inst_ns()
    ks = st.one_of(
        st.integers(-10, 10),
        ints_biased(-(10**12), 10**12, (7, 1000, 999983, 10**6)),
        st.sampled_from([1, -1, 2, -2, 3, 7, 10, 86400, 999983, 1000003, 2**31, 2**63, -(2**63), 10**23 + 7]),
    )

    def body(kind_ix, a, b, sd, i, j, k, unit, fm, fe, ymd):
        kinds = [
            ("dur_unary", lambda: {"a": a}),
            ("dur_unary", lambda: {"a": sd}),
            ("dur_binop", lambda: {"a": a, "b": b}),
            ("dur_binop", lambda: {"a": sd, "b": b if kind_ix % 2 else -sd + (b % DAY)}),
            ("dur_scale", lambda: {"a": sd, "k": k}),
            ("dur_scale", lambda: {"a": a, "k": k}),
            ("dur_factory", lambda: {"unit": unit, "n": tdiv(b, UNITS[unit]) if kind_ix % 3 else b // 97}),
            ("dur_float_factory", lambda: {"unit": unit, "m": fm, "e": fe}),
            ("inst_unary", lambda: {"i": i}),
            ("inst_arith", lambda: {"i": i, "d": sd}),
            ("inst_arith", lambda: {"i": i, "d": j - i}),
            ("inst_arith", lambda: {"i": i, "d": a // 4096}),
            ("inst_diff", lambda: {"a": i, "b": j}),
            ("inst_diff", lambda: {"a": i, "b": i + (sd % (2 * DAY)) - DAY}),
            ("inst_utc", lambda: ymd),
        ]
        for kind, mk in kinds:
            ctx.case(kind, mk())

    ymd = st.fixed_dictionaries(
        {
            "y": st.one_of(st.integers(1, 9999), st.sampled_from([1, 2, 4, 100, 400, 1600, 1900, 2000, 9999])),
            "m": st.integers(0, 13),
            "d": st.integers(0, 32),
            "h": st.integers(-1, 24),
            "mi": st.integers(-1, 60),
            "s": st.integers(-1, 60),
        }
    )
    run_hypothesis(
        body,
        dict(
            kind_ix=st.integers(0, 10**6),
            a=dur_ns(),
            b=dur_ns(0.1),
            sd=small_dur,
            i=any_inst,
            j=any_inst,
            k=ks,
            unit=st.sampled_from(sorted(UNITS)),
            fm=ints_biased(-(2**52), 2**52, (2, 1024, 2**20, 2**30)),
            fe=st.integers(0, 20),
            ymd=ymd,
        ),
        n,
        s,
    )


def task_hyp_inst_factories(ctx: Ctx, shard: int, n: int) -> None:
    s = sub_seed(ctx.seed, "c03-if", shard)

    def body(unit, raw, off_unit, off_n, h, m, oa, ob, td, edge_x):
        u = {"seconds": SEC, "milliseconds": MS, "ticks": TICK}[unit]
        ctx.case("inst_factory", {"unit": unit, "n": raw // u})
        ctx.case("off_factory", {"unit": off_unit, "n": off_n if off_unit != "hours" else off_n % 41 - 20})
        ctx.case("off_hm", {"h": h, "m": m})
        ctx.case("off_binop", {"a": oa, "b": ob})
        ctx.case("off_factory", {"unit": "timedelta", "n": td})
        # saturating offset application: anywhere, on the first/last day, and landing exactly on the day boundary
        ctx.case("safe", {"i": raw if in_inst(raw) else raw % DAY, "s": oa})
        ctx.case("safe", {"i": (INST_MAX - edge_x) if h % 2 else (INST_MIN + edge_x), "s": ob})
        ex = (INST_MAX + 1) - oa * SEC + (m % 3 - 1) if oa > 0 else INST_MIN - oa * SEC + (m % 3 - 1)
        if in_inst(ex):
            ctx.case("safe", {"i": ex, "s": oa})
        ex2 = (INST_MAX + 1) + ob * SEC + (m % 3 - 1) if ob < 0 else INST_MIN + ob * SEC + (m % 3 - 1)
        if in_inst(ex2):
            ctx.case("safe", {"i": ex2, "s": ob})

    off_units = st.sampled_from(["seconds", "milliseconds", "ticks", "nanoseconds", "hours"])
    run_hypothesis(
        body,
        dict(
            unit=st.sampled_from(["seconds", "milliseconds", "ticks"]),
            raw=inst_ns(0.1),
            off_unit=off_units,
            off_n=st.one_of(
                ints_biased(-OFF_MAX * SEC, OFF_MAX * SEC, (1000, 10**7, SEC, 3600 * SEC), 0.1),
                ints_biased(-OFF_MAX * 10**7, OFF_MAX * 10**7, (10**7,), 0.1),
                ints_biased(-OFF_MAX * 1000, OFF_MAX * 1000, (1000,), 0.1),
                ints_biased(-OFF_MAX, OFF_MAX, (60, 3600), 0.1),
            ),
            h=st.integers(-20, 20),
            m=st.integers(-100, 100),
            oa=ints_biased(-OFF_MAX, OFF_MAX, (60, 3600)),
            ob=ints_biased(-OFF_MAX, OFF_MAX, (60, 3600)),
            td=st.one_of(
                ints_biased(-(OFF_MAX + 7200) * 10**6, (OFF_MAX + 7200) * 10**6, (10**6, 60 * 10**6, 3600 * 10**6), 0.05),
                st.builds(lambda sg, x: sg * (OFF_MAX * 10**6 + x), st.sampled_from([-1, 1]), st.integers(-2 * 10**6, 2 * 10**6)),
            ),
            edge_x=ints_biased(0, 2 * DAY, (SEC, HOUR, DAY)),
        ),
        n,
        s,
    )


def task_off_enum(ctx: Ctx, lo: int, hi: int) -> None:
    for s in range(lo, hi):
        try:
            off_unary(s)
        except Mismatch as m:
            ctx.fail("off_unary", {"s": s}, m.sig, m.msg)
        except Exception as e:  # noqa: BLE001
            ctx.fail_exc("off_unary", {"s": s}, e)
    ctx.bulk(hi - lo, hi - lo, "off_unary:enumerated")
    ctx.sample("off_unary", {"s": lo}, True)


def task_dur_edges(ctx: Ctx) -> None:
    """Deterministic sweep of the needle region: k*unit-per-day +/- 1 for every magnitude of k, every factory."""
    for uname, unit in UNITS.items():
        per_day = DAY // unit
        kmax = (1 << 30) + 3
        ks = sorted({0, 1, 2, 3, kmax, kmax - 1, kmax - 2, kmax - 3, kmax - 4} | {10**e for e in range(1, 10)}
                    | {2**e for e in range(1, 31)} | {5 * 10**e for e in range(0, 9)} | {7 * 10**e + 3 for e in range(0, 9)})
        for k in ks:
            for sign in (1, -1):
                for dlt in (-1, 0, 1):
                    n = sign * k * per_day + dlt
                    ctx.case("dur_factory", {"unit": uname, "n": n})
                    if in_dur(n * unit):
                        ctx.case("dur_unary", {"a": n * unit})
        # float arguments at both ends of the unit's range (only the integer-valued floats that are exact)
        hi, lo = (DUR_MAX + 1) // unit, DUR_MIN // unit
        sp = max(1, int(math.ulp(float(hi))))
        for v in sorted({hi - d for d in (1, 2, 3, sp, 2 * sp, 3 * sp)} | {hi + d for d in (0, 1, 2, sp, 2 * sp)} | {lo + d for d in (0, 1, 2, sp, 2 * sp)} | {lo - d for d in (1, 2, sp, 2 * sp)}):
            if int(float(v)) == v:
                ctx.case("dur_float_edge", {"unit": uname, "v": v})


def task_constants(ctx: Ctx) -> None:
    """The named values the types advertise equal the integers their names say (they are the 'documented ranges')."""
    from pyoda_time import Duration, Instant, Offset

    table = {
        "Duration.zero": (lambda: Duration.zero.to_nanoseconds(), 0),
        "Duration.epsilon": (lambda: Duration.epsilon.to_nanoseconds(), 1),
        "Duration.one_day": (lambda: Duration.one_day.to_nanoseconds(), DAY),
        "Duration.one_week": (lambda: Duration.one_week.to_nanoseconds(), 7 * DAY),
        "Duration.min_value": (lambda: Duration.min_value.to_nanoseconds(), DUR_MIN),
        "Duration.max_value": (lambda: Duration.max_value.to_nanoseconds(), DUR_MAX),
        "Instant.min_value": (lambda: Instant.min_value._time_since_epoch.to_nanoseconds(), INST_MIN),
        "Instant.max_value": (lambda: Instant.max_value._time_since_epoch.to_nanoseconds(), INST_MAX),
        "Offset.zero": (lambda: Offset.zero.seconds, 0),
        "Offset.min_value": (lambda: Offset.min_value.seconds, -OFF_MAX),
        "Offset.max_value": (lambda: Offset.max_value.seconds, OFF_MAX),
    }
    for name, (get, want) in table.items():
        try:
            got = get()
            if got != want:
                ctx.fail("constant", {"name": name}, f"constant/{name}", f"{got} != {want}")
        except Exception as e:  # noqa: BLE001
            ctx.fail_exc("constant", {"name": name}, e)
    ctx.bulk(len(table), len(table), "constant:named-values")
    ctx.sample("constant", {"name": "Duration.one_day"}, True)


def tasks(tier: str, seed: int) -> list[Task]:
    mult = 1 if tier == "quick" else 20
    shards = 14
    t = [Task("task_hyp", {"shard": i, "n": 1500 * mult}, f"hyp-{i}") for i in range(shards)]
    t += [Task("task_hyp_inst_factories", {"shard": i, "n": 3000 * mult}, f"hypif-{i}") for i in range(2)]
    step = 129601 // 4 + 1
    t += [Task("task_off_enum", {"lo": -OFF_MAX + i * step, "hi": min(OFF_MAX + 1, -OFF_MAX + (i + 1) * step)}, f"off-{i}") for i in range(4)]
    t.append(Task("task_dur_edges", {}, "dur-edges"))
    t.append(Task("task_constants", {}, "constants"))
    return t
