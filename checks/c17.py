"""C17 - ISO patterns interoperate with other ISO-8601 implementations (the Python standard library).

Differential in both directions: pyoda ISO text -> datetime.fromisoformat ; stdlib isoformat() -> pyoda parse.
Plus shape assertions (fixed widths, fraction digits, terminal Z) from the pattern documentation.
"""

from __future__ import annotations

import datetime as dt
import re

from hypothesis import strategies as st

from harness import pyo
from harness.core import CaseInfo, Ctx, InvalidCase, Mismatch, Task, sub_seed
from harness.gen import ints_biased, run_hypothesis

PROPERTY = "C17"
LEVEL = "exploration"
RULE = (
    "Dates: all 3652059 ordinals (both tiers). Times: generated nanoseconds incl. every width class of trailing "
    "zeros; date-times and instants in years 1-9999 (edge biased); offsets: every whole minute within +/-18 h plus "
    "generated seconds; reduced- and variable-precision ISO patterns against isoformat(timespec=); years outside "
    "1-9999 checked for sign/width and self round trip on every ISO pattern of the date, date-time and instant families. Non-trivial: a non-zero "
    "fraction, a year < 1000 or = 9999, a non-zero offset or seconds in the offset. Distinct by construction / hash."
)
ASSUMPTIONS = ["CPython 3.12 fromisoformat: accepts 1-9 fractional digits (truncating to microseconds), 'Z', '+HH', '+HH:MM[:SS]'"]

DAY = pyo.DAY
ORD_EPOCH = 719163
MAX_ORD = 3652059
US_DAY = 86400 * 10**6

DATE_RE = re.compile(r"^\d{4}-\d{2}-\d{2}$")
TIME_RE = re.compile(r"^\d{2}:\d{2}:\d{2}(\.\d{0,8}[1-9])?$")
TIME9_RE = re.compile(r"^\d{2}:\d{2}:\d{2}\.\d{9}$")
OFF_RE = re.compile(r"^[+-]\d{2}(:\d{2}(:\d{2})?)?$")


def exhaustive(tier: str) -> bool:
    return False


def need(cond: bool, sig: str, msg: str = "") -> None:
    if not cond:
        raise Mismatch(sig, msg)


def eval_case(kind: str, c: dict) -> CaseInfo:
    return globals()["_k_" + kind](c)


def check_date(o: int) -> None:
    from pyoda_time import LocalDate
    from pyoda_time.text import LocalDatePattern

    d = dt.date.fromordinal(o)
    ld = LocalDate(d.year, d.month, d.day)
    text = LocalDatePattern.iso.format(ld)
    need(DATE_RE.match(text) is not None, "date/shape", f"{d}: {text!r}")
    need(dt.date.fromisoformat(text) == d, "date/pyoda->stdlib", f"{text!r}")
    need(text == d.isoformat(), "date/text-equals-stdlib", f"{text!r} vs {d.isoformat()!r}")
    r = LocalDatePattern.iso.parse(d.isoformat())
    need(r.success and r.value == ld, "date/stdlib->pyoda", f"{d.isoformat()!r}")


def _k_date(c) -> CaseInfo:
    if not 1 <= c["o"] <= MAX_ORD:
        raise InvalidCase
    check_date(c["o"])
    return CaseInfo(True, "date")


def time_of(ns: int) -> dt.time:
    us = ns // 1000
    s, micro = divmod(us, 10**6)
    return dt.time(s // 3600, s // 60 % 60, s % 60, micro)


def _k_time(c) -> CaseInfo:
    from pyoda_time import LocalTime
    from pyoda_time.text import LocalTimePattern

    ns = c["ns"]
    if not 0 <= ns < DAY:
        raise InvalidCase
    lt = LocalTime.from_nanoseconds_since_midnight(ns)
    t = time_of(ns)
    text = LocalTimePattern.extended_iso.format(lt)
    need(TIME_RE.match(text) is not None, "time/shape", f"{ns}: {text!r}")
    frac = ns % 10**9
    exp_frac = ("%09d" % frac).rstrip("0")
    need(text == "%02d:%02d:%02d" % (t.hour, t.minute, t.second) + ("." + exp_frac if exp_frac else ""), "time/text", f"{ns}: {text!r}")
    need(dt.time.fromisoformat(text) == t, "time/pyoda->stdlib", f"{text!r} -> {dt.time.fromisoformat(text)} vs {t}")
    long_text = LocalTimePattern.long_extended_iso.format(lt)
    need(TIME9_RE.match(long_text) is not None and long_text.endswith("%09d" % frac), "time/long-shape", f"{long_text!r}")
    need(dt.time.fromisoformat(long_text) == t, "time/long->stdlib", f"{long_text!r}")
    for pat, nm in ((LocalTimePattern.extended_iso, "extended"), (LocalTimePattern.long_extended_iso, "long")):
        r = pat.parse(pat.format(lt))
        need(r.success and r.value == lt, f"time/{nm}-roundtrip", f"{ns}")
    # stdlib -> pyoda (microsecond precision)
    r = LocalTimePattern.extended_iso.parse(t.isoformat())
    need(r.success and r.value.nanosecond_of_day == (ns // 1000) * 1000, "time/stdlib->pyoda", f"{t.isoformat()!r}")
    if ns % 10**9 == 0:
        g = LocalTimePattern.general_iso.format(lt)
        need(g == t.isoformat() and dt.time.fromisoformat(g) == t, "time/general", f"{g!r}")
    # reduced-precision ISO forms: hh, hh:mm, and the shortest of the three that is exact
    if ns % (3600 * 10**9) == 0:
        h = LocalTimePattern.hour_iso.format(lt)
        need(h == t.isoformat(timespec="hours") and dt.time.fromisoformat(h) == t, "time/hour_iso", f"{h!r}")
        need(LocalTimePattern.hour_iso.parse(h).value == lt, "time/hour_iso-roundtrip")
    if ns % (60 * 10**9) == 0:
        hm = LocalTimePattern.hour_minute_iso.format(lt)
        need(hm == t.isoformat(timespec="minutes") and dt.time.fromisoformat(hm) == t, "time/hour_minute_iso", f"{hm!r}")
        need(LocalTimePattern.hour_minute_iso.parse(hm).value == lt, "time/hour_minute_iso-roundtrip")
    vp = LocalTimePattern.variable_precision_iso.format(lt)
    need(dt.time.fromisoformat(vp) == t, "time/variable_precision->stdlib", f"{vp!r}")
    rv = LocalTimePattern.variable_precision_iso.parse(vp)
    need(rv.success and rv.value == lt, "time/variable_precision-roundtrip", f"{vp!r}")
    for tx in (t.isoformat(timespec="hours") if ns % (3600 * 10**9) == 0 else None, t.isoformat(timespec="minutes") if ns % (60 * 10**9) == 0 else None, t.isoformat()):
        if tx is not None:
            r3 = LocalTimePattern.variable_precision_iso.parse(tx)
            need(r3.success and r3.value.nanosecond_of_day == (ns // 1000) * 1000, "time/stdlib->variable_precision", f"{tx!r}")
    return CaseInfo(frac != 0, "time:frac" if frac else "time:whole")


def _k_datetime(c) -> CaseInfo:
    from pyoda_time import Instant, LocalDate, LocalTime
    from pyoda_time.text import InstantPattern, LocalDateTimePattern

    o, ns = c["o"], c["ns"]
    if not (1 <= o <= MAX_ORD and 0 <= ns < DAY):
        raise InvalidCase
    d = dt.date.fromordinal(o)
    t = time_of(ns)
    sd = dt.datetime.combine(d, t)
    ldt = LocalDate(d.year, d.month, d.day).at(LocalTime.from_nanoseconds_since_midnight(ns))
    text = LocalDateTimePattern.extended_iso.format(ldt)
    need(re.match(r"^\d{4}-\d{2}-\d{2}T\d{2}:\d{2}:\d{2}(\.\d{0,8}[1-9])?$", text) is not None, "datetime/shape", f"{text!r}")
    need(dt.datetime.fromisoformat(text) == sd, "datetime/pyoda->stdlib", f"{text!r}")
    r = LocalDateTimePattern.extended_iso.parse(sd.isoformat())
    need(r.success and pyo.ldt_total(r.value) == (o - ORD_EPOCH) * DAY + (ns // 1000) * 1000, "datetime/stdlib->pyoda", f"{sd.isoformat()!r}")
    bcl = LocalDateTimePattern.bcl_round_trip.format(ldt)
    need(re.match(r"^\d{4}-\d{2}-\d{2}T\d{2}:\d{2}:\d{2}\.\d{7}$", bcl) is not None, "datetime/bcl-shape", f"{bcl!r}")
    need(dt.datetime.fromisoformat(bcl) == sd, "datetime/bcl->stdlib", f"{bcl!r}")
    full = LocalDateTimePattern.full_roundtrip_without_calendar.format(ldt)
    need(re.match(r"^\d{4}-\d{2}-\d{2}T\d{2}:\d{2}:\d{2}\.\d{9}$", full) is not None, "datetime/full-shape", f"{full!r}")
    need(dt.datetime.fromisoformat(full) == sd, "datetime/full->stdlib", f"{full!r}")
    if ns % 10**9 == 0:
        g = LocalDateTimePattern.general_iso.format(ldt)
        need(g == sd.isoformat(), "datetime/general", f"{g!r} vs {sd.isoformat()!r}")
    if ns % (3600 * 10**9) == 0:
        h = LocalDateTimePattern.date_hour_iso.format(ldt)
        need(h == sd.isoformat(timespec="hours") and dt.datetime.fromisoformat(h) == sd, "datetime/date_hour_iso", f"{h!r}")
        need(LocalDateTimePattern.date_hour_iso.parse(h).value == ldt, "datetime/date_hour_iso-roundtrip")
    if ns % (60 * 10**9) == 0:
        hm = LocalDateTimePattern.date_hour_minute_iso.format(ldt)
        need(hm == sd.isoformat(timespec="minutes") and dt.datetime.fromisoformat(hm) == sd, "datetime/date_hour_minute_iso", f"{hm!r}")
        need(LocalDateTimePattern.date_hour_minute_iso.parse(hm).value == ldt, "datetime/date_hour_minute_iso-roundtrip")
    vp = LocalDateTimePattern.variable_precision_iso.format(ldt)
    need(dt.datetime.fromisoformat(vp) == sd, "datetime/variable_precision->stdlib", f"{vp!r}")
    rv = LocalDateTimePattern.variable_precision_iso.parse(vp)
    need(rv.success and rv.value == ldt, "datetime/variable_precision-roundtrip", f"{vp!r}")
    r3 = LocalDateTimePattern.variable_precision_iso.parse(sd.isoformat())
    need(r3.success and pyo.ldt_total(r3.value) == (o - ORD_EPOCH) * DAY + (ns // 1000) * 1000, "datetime/stdlib->variable_precision", f"{sd.isoformat()!r}")
    # instant at the same UTC fields
    i = Instant._ctor(days=o - ORD_EPOCH, nano_of_day=ns)
    it = InstantPattern.extended_iso.format(i)
    need(it.endswith("Z") and it[:-1] == text, "instant/shape", f"{it!r}")
    su = sd.replace(tzinfo=dt.timezone.utc)
    back = dt.datetime.fromisoformat(it)
    need(back == su and back.utcoffset() == dt.timedelta(0), "instant/pyoda->stdlib", f"{it!r}")
    r2 = InstantPattern.extended_iso.parse(su.isoformat().replace("+00:00", "Z"))
    need(r2.success and r2.value._time_since_epoch.to_nanoseconds() == (o - ORD_EPOCH) * DAY + (ns // 1000) * 1000, "instant/stdlib->pyoda", f"{su.isoformat()!r}")
    if ns % 10**9 == 0:
        gi = InstantPattern.general.format(i)
        need(gi == sd.isoformat() + "Z", "instant/general", f"{gi!r}")
    return CaseInfo(ns % 10**9 != 0 or d.year < 1000 or d.year == 9999, "datetime")


def off_text(s: int) -> str:
    a = abs(s)
    txt = "%02d" % (a // 3600)
    if a % 3600:
        txt += ":%02d" % (a // 60 % 60)
    if a % 60:
        txt += ":%02d" % (a % 60)
    return ("-" if s < 0 else "+") + txt


def check_offset(s: int) -> None:
    from pyoda_time import Offset
    from pyoda_time.text import OffsetPattern

    o = Offset.from_seconds(s)
    text = OffsetPattern.general_invariant.format(o)
    need(OFF_RE.match(text) is not None, "offset/shape", f"{s}: {text!r}")
    need(text == off_text(s), "offset/text", f"{s}: {text!r} vs {off_text(s)!r}")
    z = OffsetPattern.general_invariant_with_z.format(o)
    need(z == ("Z" if s == 0 else text), "offset/with-z", f"{s}: {z!r}")
    sd = dt.datetime.fromisoformat("2000-01-01T00:00:00" + text)
    need(sd.utcoffset() == dt.timedelta(seconds=s), "offset/pyoda->stdlib", f"{text!r} -> {sd.utcoffset()}")
    sdz = dt.datetime.fromisoformat("2000-01-01T00:00:00" + z)
    need(sdz.utcoffset() == dt.timedelta(seconds=s), "offset/with-z->stdlib")
    iso = dt.datetime(2000, 1, 1, tzinfo=dt.timezone(dt.timedelta(seconds=s))).isoformat()
    tail = iso[19:]
    for pat in (OffsetPattern.general_invariant, OffsetPattern.general_invariant_with_z):
        r = pat.parse(tail)
        need(r.success and r.value.seconds == s, "offset/stdlib->pyoda", f"{tail!r}")
    for pat in (OffsetPattern.general_invariant, OffsetPattern.general_invariant_with_z):
        r = pat.parse(pat.format(o))
        need(r.success and r.value.seconds == s, "offset/roundtrip")


def _k_offset(c) -> CaseInfo:
    if abs(c["s"]) > 64800:
        raise InvalidCase
    check_offset(c["s"])
    return CaseInfo(c["s"] != 0, "offset")


def _k_far_year(c) -> CaseInfo:
    """Years outside the stdlib range: sign and 4-digit padding per the pattern documentation, self round trip."""
    from pyoda_time import LocalDate
    from pyoda_time.text import LocalDatePattern, LocalDateTimePattern

    y, m, d = c["y"], c["m"], c["d"]
    if not -9998 <= y <= 9999:
        raise InvalidCase
    try:
        ld = LocalDate(y, m, d)
    except ValueError:
        raise InvalidCase from None
    text = LocalDatePattern.iso.format(ld)
    exp = ("-" if y < 0 else "") + "%04d-%02d-%02d" % (abs(y), m, d)
    need(text == exp, "far-year/text", f"{(y, m, d)}: {text!r} vs {exp!r}")
    r = LocalDatePattern.iso.parse(text)
    need(r.success and r.value == ld, "far-year/roundtrip", f"{text!r}")
    t2 = LocalDateTimePattern.extended_iso.format(ld.at_midnight())
    need(t2 == exp + "T00:00:00", "far-year/datetime-text", f"{t2!r}")
    # every other ISO pattern of the date-time and instant families: same sign / width rules, self round trip
    from pyoda_time import DateTimeZone
    from pyoda_time.text import InstantPattern

    ldt = ld.at_midnight()
    for nm in ("general_iso", "bcl_round_trip", "full_roundtrip_without_calendar"):
        pat = getattr(LocalDateTimePattern, nm)
        t3 = pat.format(ldt)
        need(t3.startswith(exp + "T00:00:00"), f"far-year/datetime.{nm}-text", f"{t3!r}")
        r3 = pat.parse(t3)
        need(r3.success and r3.value == ldt, f"far-year/datetime.{nm}-roundtrip", f"{t3!r}")
    inst = ldt.in_zone_strictly(DateTimeZone.utc).to_instant()
    for nm, suffix in (("general", "T00:00:00Z"), ("extended_iso", "T00:00:00Z")):
        pat = getattr(InstantPattern, nm)
        t4 = pat.format(inst)
        need(t4 == exp + suffix, f"far-year/instant.{nm}-text", f"{t4!r} vs {exp + suffix!r}")
        r4 = pat.parse(t4)
        need(r4.success and r4.value == inst, f"far-year/instant.{nm}-roundtrip", f"{t4!r}")
    return CaseInfo(True, "far_year")


# ---------------------------------------------------------------------------------------------------------------


def task_dates(ctx: Ctx, lo: int, hi: int) -> None:
    nt = 0
    for o in range(lo, hi):
        try:
            check_date(o)
        except Mismatch as m:
            ctx.fail("date", {"o": o}, m.sig, m.msg)
        except Exception as e:  # noqa: BLE001
            ctx.fail_exc("date", {"o": o}, e)
        if o < 365 * 1000 or o > MAX_ORD - 366:
            nt += 1
    ctx.bulk(hi - lo, nt, "date:enumerated")
    ctx.sample("date", {"o": lo}, True)


def task_offsets(ctx: Ctx, lo: int, hi: int, step: int) -> None:
    n = 0
    for s in range(lo, hi, step):
        try:
            check_offset(s)
        except Mismatch as m:
            ctx.fail("offset", {"s": s}, m.sig, m.msg)
        except Exception as e:  # noqa: BLE001
            ctx.fail_exc("offset", {"s": s}, e)
        n += 1
    ctx.bulk(n, n - 1, "offset:enumerated")
    ctx.sample("offset", {"s": lo}, True)


def task_hyp(ctx: Ctx, shard: int, n: int) -> None:
    s = sub_seed(ctx.seed, "c17", shard)
    # nanoseconds with every width class of trailing zeros
    frac = st.integers(0, 9).flatmap(lambda k: st.integers(0, 10 ** (9 - k) - 1).map(lambda v: v * 10**k))
    nod = st.tuples(st.integers(0, 86399), frac).map(lambda t: t[0] * 10**9 + t[1])
    ords = st.one_of(st.integers(1, MAX_ORD), ints_biased(1, 366 * 1000, (365,)), ints_biased(MAX_ORD - 800, MAX_ORD, (365,)))

    def body(ns, o, off, y, m, d):
        ctx.case("time", {"ns": ns})
        ctx.case("datetime", {"o": o, "ns": ns})
        ctx.case("offset", {"s": off})
        ctx.case("far_year", {"y": y, "m": m, "d": d})

    run_hypothesis(
        body,
        dict(ns=nod, o=ords, off=ints_biased(-64800, 64800, (60, 3600)), y=st.one_of(st.integers(-9998, 0), st.integers(1, 999), st.just(9999)), m=st.integers(1, 12), d=st.integers(1, 28)),
        n,
        s,
    )


def tasks(tier: str, seed: int) -> list[Task]:
    thorough = tier == "thorough"
    k = 32
    size = MAX_ORD // k + 1
    out = [Task("task_dates", {"lo": 1 + j * size, "hi": min(MAX_ORD + 1, 1 + (j + 1) * size)}, f"dates-{j}") for j in range(k)]
    out.append(Task("task_offsets", {"lo": -64800, "hi": 64801, "step": 60}, "off-minutes"))
    if thorough:
        for j in range(4):
            out.append(Task("task_offsets", {"lo": -64800 + j, "hi": 64801, "step": 4}, f"off-all-{j}"))
    for j in range(8):
        out.append(Task("task_hyp", {"shard": j, "n": 1200 if not thorough else 40000}, f"hyp-{j}"))
    return out
