"""C12 - value types are immutable values with consistent equality, hashing and ordering.

Oracle: a per-type component key taken from the documentation (calendar id + y/m/d, nanoseconds, seconds, ...):
x == y <=> key(x) == key(y); hash agrees; <, <=, >, >=, compare_to, min, max agree with the model order; ordering across
calendars raises ValueError, against unrelated types TypeError. Immutability: generated sequences of public method
calls; every value ever produced is snapshotted at birth and re-checked after every step.
"""

from __future__ import annotations

import enum

from hypothesis import strategies as st

from harness import pyo
from harness import zones as Z
from harness.core import CaseInfo, Ctx, InvalidCase, Mismatch, Task, sub_seed
from harness.gen import ints_biased, run_hypothesis

PROPERTY = "C12"
LEVEL = "exploration"
RULE = (
    "For each of 17 value types, triples drawn from a small per-example pool of specs (so equal-but-distinct objects, "
    "built through different constructors, are common; a value up to ~13 months away on the same axis is in the pool) "
    "in all calendars, plus unrelated operands; per calendar, all pairs among start/middle/end days of every month "
    "of 19 (thorough 200) consecutive seed-chosen years and the first/last two years ordered as their day numbers; component-key "
    "oracle for ==, !=, hash, <, <=, >, >=, compare_to, min, max. Immutability: generated sequences of public method "
    "calls on values of every type with a snapshot-at-birth invariant re-checked after every step. Non-trivial: a "
    "pair equal but not identical, differing in exactly one component, or a cross-calendar / unrelated comparison; "
    "for year panels: a leap / 13-month / first or last year; "
    "for histories: >= 3 operations that returned new values. Distinct = case hash."
)
ASSUMPTIONS = ["the harness never calls repr()/format on dates (month-name formatting of months 13+ raises on this code base)"]
CASE_SCALE = {"calorder": 10}  # one case = all ordered pairs among ~70 dates of a year

DAY = Z.DAY
SEC = Z.SEC
INST_MIN, INST_MAX = Z.INST_MIN, Z.INST_MAX
DUR_MIN = -(1 << 30) * DAY
DUR_MAX = (1 << 30) * DAY - 1
TYPES = ["duration", "instant", "offset", "date", "time", "datetime", "yearmonth", "annual", "offsetdate", "offsettime", "offsetdatetime", "zoned", "interval", "dateinterval", "period", "zoneinterval", "fixedzone"]
ORDERED = {"duration", "instant", "offset", "date", "time", "datetime", "yearmonth", "annual"}
CAL_BOUND = {"date", "datetime", "yearmonth"}
ZONES = ["UTC", "Europe/London", "America/New_York", "Asia/Kolkata"]
PERIOD_FIELDS = ["years", "months", "weeks", "days", "hours", "minutes", "seconds", "milliseconds", "ticks", "nanoseconds"]


def need(cond: bool, sig: str, msg: str = "") -> None:
    if not cond:
        raise Mismatch(sig, msg)


def eval_case(kind: str, c: dict) -> CaseInfo:
    return globals()["_k_" + kind](c)


# --- construction from JSON specs, through two different routes -------------------------------------------------------


def valid_spec(t: str, s: dict) -> bool:
    try:
        if t == "duration":
            return DUR_MIN <= s["ns"] <= DUR_MAX
        if t == "instant":
            return INST_MIN <= s["i"] <= INST_MAX
        if t in ("offset", "fixedzone"):
            return abs(s["s"]) <= 64800
        if t in ("date", "datetime", "offsetdate", "offsetdatetime"):
            c = pyo.cal(s["cal"])
            if not c._min_days <= s["n"] <= c._max_days:
                return False
        if t in ("time", "datetime", "offsettime", "offsetdatetime") and not 0 <= s["ns"] < DAY:
            return False
        if t in ("offsetdate", "offsettime", "offsetdatetime") and abs(s["s"]) > 64800:
            return False
        if t == "yearmonth":
            c = pyo.cal(s["cal"])
            return c.min_year <= s["y"] <= c.max_year and 1 <= s["m"] <= c.get_months_in_year(s["y"])
        if t == "annual":
            return 1 <= s["m"] <= 12 and 1 <= s["d"] <= [31, 29, 31, 30, 31, 30, 31, 31, 30, 31, 30, 31][s["m"] - 1]
        if t == "zoned":
            c = pyo.cal(s["cal"])
            return s["zone"] in ZONES and INST_MIN + 20 * 3600 * SEC <= s["i"] <= INST_MAX - 20 * 3600 * SEC and c._min_days + 1 <= s["i"] // DAY <= c._max_days - 1
        if t == "interval":
            a, b = s["s"], s["e"]
            return all(v is None or INST_MIN <= v <= INST_MAX for v in (a, b)) and (a is None or b is None or a <= b)
        if t == "dateinterval":
            c = pyo.cal(s["cal"])
            return c._min_days <= s["a"] <= s["b"] <= c._max_days
        if t == "period":
            return all(k in PERIOD_FIELDS and isinstance(v, int) for k, v in s.items())
        if t == "zoneinterval":
            a, b = s["s"], s["e"]
            return all(v is None or INST_MIN <= v <= INST_MAX for v in (a, b)) and (a is None or b is None or a < b) and abs(s["wall"]) <= 64800 and abs(s["sav"]) <= 64800 and isinstance(s["name"], str)
    except (KeyError, TypeError):
        return False
    return True


def make(t: str, s: dict, route: int = 0):
    from pyoda_time import AnnualDate, DateInterval, DateTimeZone, Duration, Interval, LocalDate, LocalTime, Offset, OffsetDate, OffsetDateTime, OffsetTime, PeriodBuilder, YearMonth
    from pyoda_time.time_zones import ZoneInterval

    if t == "duration":
        if route:
            d, r = divmod(s["ns"], DAY)
            return Duration.from_days(d) + Duration.from_nanoseconds(r)
        return Duration.from_nanoseconds(s["ns"])
    if t == "instant":
        if route:
            from pyoda_time import PyodaConstants

            return PyodaConstants.UNIX_EPOCH.plus_nanoseconds(s["i"])
        return Z.inst(s["i"])
    if t == "offset":
        return Offset.from_seconds(s["s"]) if not route else Offset.from_milliseconds(s["s"] * 1000)
    if t == "date":
        d = pyo.date_from_day(s["cal"], s["n"])
        return LocalDate(d.year, d.month, d.day, d.calendar) if route else d
    if t == "time":
        return LocalTime.from_nanoseconds_since_midnight(s["ns"]) if not route else LocalTime.midnight.plus_nanoseconds(s["ns"])
    if t == "datetime":
        if route:
            return pyo.date_from_day(s["cal"], s["n"]).at_midnight().plus_nanoseconds(s["ns"])
        return pyo.ldt_from(s["cal"], s["n"], s["ns"])
    if t == "yearmonth":
        if route:
            # from a date inside the month, not just its first day (the year-month of a date forgets the day)
            cal_ = pyo.cal(s["cal"])
            day = 1 + (s["y"] * 7 + s["m"] * 3) % cal_.get_days_in_month(s["y"], s["m"])
            try:
                return LocalDate(s["y"], s["m"], day, cal_).to_year_month()
            except (ValueError, OverflowError):  # partial first / last month of a calendar
                return LocalDate(s["y"], s["m"], 1, cal_).to_year_month()
        return YearMonth(year=s["y"], month=s["m"], calendar=pyo.cal(s["cal"]))
    if t == "annual":
        return AnnualDate(s["m"], s["d"])
    if t == "offsetdate":
        d = pyo.date_from_day(s["cal"], s["n"])
        return OffsetDate(d, Offset.from_seconds(s["s"])) if not route else d.with_offset(Offset.from_seconds(s["s"]))
    if t == "offsettime":
        lt = LocalTime.from_nanoseconds_since_midnight(s["ns"])
        return OffsetTime(lt, Offset.from_seconds(s["s"])) if not route else lt.with_offset(Offset.from_seconds(s["s"]))
    if t == "offsetdatetime":
        ldt = pyo.ldt_from(s["cal"], s["n"], s["ns"])
        o = Offset.from_seconds(s["s"])
        if route:
            return OffsetDate(ldt.date, o).at(ldt.time_of_day)
        return OffsetDateTime(ldt, o)
    if t == "zoned":
        z = Z.zone(s["zone"])
        i = Z.inst(s["i"])
        if route:
            from pyoda_time import ZonedDateTime

            return ZonedDateTime(instant=i, zone=z, calendar=pyo.cal(s["cal"]))
        return i.in_zone(z, pyo.cal(s["cal"]))
    if t == "interval":
        return Interval(None if s["s"] is None else Z.inst(s["s"]), None if s["e"] is None else Z.inst(s["e"]))
    if t == "dateinterval":
        return DateInterval(pyo.date_from_day(s["cal"], s["a"]), pyo.date_from_day(s["cal"], s["b"]))
    if t == "period":
        p = PeriodBuilder(**s).build()
        if route:
            return p.to_builder().build()
        return p
    if t == "zoneinterval":
        return ZoneInterval(name=s["name"], start=None if s["s"] is None else Z.inst(s["s"]), end=None if s["e"] is None else Z.inst(s["e"]), wall_offset=Offset.from_seconds(s["wall"]), savings=Offset.from_seconds(s["sav"]))
    if t == "fixedzone":
        return DateTimeZone.for_offset(Offset.from_seconds(s["s"]))
    raise InvalidCase


def key(t: str, s: dict):
    """The documented components that define equality."""
    if t == "period":
        return tuple(s.get(k, 0) for k in PERIOD_FIELDS)
    return tuple(sorted(s.items(), key=lambda kv: kv[0]))


def order_key(t: str, s: dict):
    if t in ("duration", "time"):
        return s["ns"]
    if t == "instant":
        return s["i"]
    if t == "offset":
        return s["s"]
    if t == "date":
        return s["n"]
    if t == "datetime":
        return (s["n"], s["ns"])
    if t == "yearmonth":
        from pyoda_time import LocalDate

        return LocalDate(s["y"], s["m"], 1, pyo.cal(s["cal"]))._days_since_epoch
    if t == "annual":
        return (s["m"], s["d"])
    raise InvalidCase


UNRELATED = [None, 5, "x", 1.5, object()]


def check_pair(t: str, sx: dict, sy: dict, rx: int, ry: int) -> bool:
    """Returns non-triviality."""
    x, y = make(t, sx, rx), make(t, sy, ry)
    kx, ky = key(t, sx), key(t, sy)
    eq = kx == ky
    need((x == y) == eq, f"eq/{t}", f"{sx} vs {sy}: == gives {x == y}, components equal: {eq}")
    need((y == x) == eq, f"eq-symmetry/{t}", f"{sx} vs {sy}")
    need((x != y) == (not eq), f"ne/{t}", f"{sx} vs {sy}")
    need(x == x and not (x != x), f"eq-reflexive/{t}")
    if hasattr(x, "equals"):
        need(bool(x.equals(y)) == eq, f"equals()/{t}", f"{sx} vs {sy}")
    try:
        hx, hy = hash(x), hash(y)
    except TypeError:
        hx = hy = None
    if eq and hx is not None:
        need(hx == hy, f"hash/{t}", f"{sx} vs {sy}: equal values, hashes {hx} != {hy}")
    if hx is not None:
        need(hash(x) == hx, f"hash-stable/{t}")
    cross_cal = t in CAL_BOUND and sx["cal"] != sy["cal"]
    if t in ORDERED:
        ops = [("lt", lambda a, b: a < b), ("le", lambda a, b: a <= b), ("gt", lambda a, b: a > b), ("ge", lambda a, b: a >= b), ("compare_to", lambda a, b: a.compare_to(b))]
        if hasattr(type(x), "max"):
            ops += [("max", lambda a, b: type(a).max(a, b)), ("min", lambda a, b: type(a).min(a, b))]
        if cross_cal:
            for nm, fn in ops:
                try:
                    fn(x, y)
                except ValueError:
                    continue
                raise Mismatch(f"cross-calendar-order-not-refused/{t}/{nm}", f"{sx} vs {sy}")
        else:
            ox, oy = order_key(t, sx), order_key(t, sy)
            need((x < y) == (ox < oy) and (x <= y) == (ox <= oy) and (x > y) == (ox > oy) and (x >= y) == (ox >= oy), f"order/{t}", f"{sx} vs {sy}: < {x < y} <= {x <= y} > {x > y} >= {x >= y}; model {ox} vs {oy}")
            need(int(x < y) + int(x == y) + int(x > y) == 1, f"trichotomy/{t}", f"{sx} vs {sy}")
            ct = x.compare_to(y)
            need((ct > 0) - (ct < 0) == (ox > oy) - (ox < oy), f"compare_to/{t}", f"{sx} vs {sy}: {ct}")
            need(x.compare_to(None) > 0, f"compare_to-none/{t}")
            if hasattr(type(x), "max"):
                mx, mn = type(x).max(x, y), type(x).min(x, y)
                need((mx is x or mx is y) and (mn is x or mn is y), f"minmax-not-an-operand/{t}")
                need(mx == (x if ox >= oy else y) and mn == (x if ox <= oy else y), f"minmax/{t}", f"{sx} vs {sy}")
    for u in UNRELATED:
        need((x == u) is False and (x != u) is True, f"eq-unrelated/{t}", f"{type(u).__name__}")
        if t in ORDERED and u is not None:
            for nm, fn in (("lt", lambda a, b: a < b), ("ge", lambda a, b: a >= b), ("rlt", lambda a, b: b < a)):
                try:
                    fn(x, u)
                except TypeError:
                    continue
                raise Mismatch(f"order-unrelated-not-refused/{t}/{nm}", f"{type(u).__name__}")
    ndiff = sum(1 for a, b in zip(kx, ky) if a != b) if len(kx) == len(ky) else 9
    return (eq and x is not y) or ndiff == 1 or cross_cal


def _k_triple(c) -> CaseInfo:
    t, specs, routes = c["type"], c["specs"], c["routes"]
    if t not in TYPES or len(specs) != 3 or not all(valid_spec(t, s) for s in specs):
        raise InvalidCase
    nt = False
    for i in range(3):
        for j in range(3):
            nt = check_pair(t, specs[i], specs[j], routes[i] % 2, routes[(j + 1) % 3] % 2) or nt
    # transitivity over the triple (model side is transitive; check the implementation's == directly)
    vs = [make(t, s, 0) for s in specs]
    if vs[0] == vs[1] and vs[1] == vs[2]:
        need(vs[0] == vs[2], f"eq-transitive/{t}")
    return CaseInfo(nt, f"triple:{t}")


def _k_calorder(c) -> CaseInfo:
    """Within one calendar year (plus the days just outside it): every pair of the dates at the start, middle and end
    of every month is ordered by the operators, compare_to, min/max exactly as their day numbers are; likewise the
    year-months of that year and local date-times built on those dates."""
    from pyoda_time import LocalDate, LocalDateTime, LocalTime, YearMonth

    cid, y = c["cal"], c["y"]
    cal = pyo.cal(cid)
    if not cal.min_year <= y <= cal.max_year:
        raise InvalidCase
    dates = []
    for m in range(1, cal.get_months_in_year(y) + 1):
        ln = cal.get_days_in_month(y, m)
        for d in sorted({1, 2, ln // 2, ln - 1, ln}):
            if d >= 1:
                try:
                    dates.append(LocalDate(y, m, d, cal))
                except (ValueError, OverflowError):
                    pass  # partial first/last year of a calendar
    if not dates:
        raise InvalidCase
    lo, hi = min(d._days_since_epoch for d in dates), max(d._days_since_epoch for d in dates)
    for n in (lo - 1, hi + 1):
        if cal._min_days <= n <= cal._max_days:
            dates.append(pyo.date_from_day(cid, n))
    t1, t2 = LocalTime.midnight, LocalTime(23, 59, 59)
    ldts = [(d._days_since_epoch * 2 + k, d.at(t)) for d in dates[:: max(1, len(dates) // 14)] for k, t in ((0, t1), (1, t2))]
    yms = [(LocalDate(y, m, 1, cal)._days_since_epoch if _has_first(cal, y, m) else None, YearMonth(year=y, month=m, calendar=cal)) for m in range(1, cal.get_months_in_year(y) + 1)]
    yms = [(k, v) for k, v in yms if k is not None]
    groups = (("date", [(d._days_since_epoch, d) for d in dates]), ("datetime", ldts), ("yearmonth", yms))
    for t, vals in groups:
        for kx, x in vals:
            for ky, yv in vals:
                ok = (x < yv) == (kx < ky) and (x <= yv) == (kx <= ky) and (x > yv) == (kx > ky) and (x >= yv) == (kx >= ky) and (x == yv) == (kx == ky)
                if not ok:
                    raise Mismatch(f"order/{t}/{cid}", f"{x.year}-{x.month} vs {yv.year}-{yv.month} (keys {kx}, {ky}): < {x < yv} == {x == yv} > {x > yv}")
                ct = x.compare_to(yv)
                if (ct > 0) - (ct < 0) != (kx > ky) - (kx < ky):
                    raise Mismatch(f"compare_to/{t}/{cid}", f"keys {kx}, {ky}: compare_to {ct}")
                if t != "yearmonth":
                    mx = type(x).max(x, yv)
                    if mx != (x if kx >= ky else yv):
                        raise Mismatch(f"minmax/{t}/{cid}", f"keys {kx}, {ky}")
        srt = sorted((v for _, v in vals))
        if [v for _, v in sorted(vals, key=lambda kv: kv[0])] != srt:
            raise Mismatch(f"sorted/{t}/{cid}", f"year {y}")
    return CaseInfo(cal.get_months_in_year(y) > 12 or y in (cal.min_year, cal.max_year) or cal.is_leap_year(y), f"calorder:{cid}")


def _has_first(cal, y, m) -> bool:
    from pyoda_time import LocalDate

    try:
        LocalDate(y, m, 1, cal)
        return True
    except (ValueError, OverflowError):
        return False


def task_calorder(ctx: Ctx, cids: list[str], years: int, salt: int) -> None:
    for cid in cids:
        cal = pyo.cal(cid)
        ny = cal.max_year - cal.min_year + 1
        start = cal.min_year + sub_seed(ctx.seed, "c12o", cid, salt) % max(1, ny - years)
        ys = sorted(set(range(start, min(cal.max_year, start + years - 1) + 1)) | {cal.min_year, cal.min_year + 1, cal.max_year - 1, cal.max_year})
        for y in ys:
            ctx.case("calorder", {"cal": cid, "y": y})


# --- immutability histories -------------------------------------------------------------------------------------------


def render(v, depth: int = 0):
    from pyoda_time import AnnualDate, CalendarSystem, DateInterval, Duration, Instant, Interval, LocalDate, LocalDateTime, LocalTime, Offset, OffsetDate, OffsetDateTime, OffsetTime, Period, YearMonth, ZonedDateTime
    from pyoda_time.calendars import Era

    if v is None or isinstance(v, (bool, int, str, float)):
        return v
    if isinstance(v, enum.Enum):
        return int(v.value) if isinstance(v.value, int) else str(v.value)
    if isinstance(v, Duration):
        return ("D", v._floor_days, v._nanosecond_of_floor_day)
    if isinstance(v, Instant):
        return ("I", Z.ns(v))
    if isinstance(v, Offset):
        return ("O", v.seconds)
    if isinstance(v, LocalDate):
        return ("LD", v.calendar.id, v.year, v.month, v.day)
    if isinstance(v, LocalTime):
        return ("LT", v.nanosecond_of_day)
    if isinstance(v, LocalDateTime):
        return ("LDT", render(v.date), v.nanosecond_of_day)
    if isinstance(v, YearMonth):
        return ("YM", v.calendar.id, v.year, v.month)
    if isinstance(v, AnnualDate):
        return ("AD", v.month, v.day)
    if isinstance(v, OffsetDate):
        return ("OD", render(v.date), v.offset.seconds)
    if isinstance(v, OffsetTime):
        return ("OT", v.nanosecond_of_day, v.offset.seconds)
    if isinstance(v, OffsetDateTime):
        return ("ODT", render(v.date), v.nanosecond_of_day, v.offset.seconds)
    if isinstance(v, ZonedDateTime):
        return ("ZDT", render(v.to_offset_date_time()), v.zone.id)
    if isinstance(v, Interval):
        return ("IV", render(v.start) if v.has_start else None, render(v.end) if v.has_end else None)
    if isinstance(v, DateInterval):
        return ("DI", render(v.start), render(v.end))
    if isinstance(v, Period):
        return ("P",) + tuple(getattr(v, f) for f in PERIOD_FIELDS)
    if isinstance(v, (CalendarSystem,)):
        return ("CAL", v.id)
    if isinstance(v, Era):
        return ("ERA", v.name)
    return ("obj", type(v).__name__)


def snapshot(v):
    """All public non-callable properties of the value, rendered by the harness (not by the library)."""
    out = [render(v)]
    for name in sorted(dir(type(v))):
        if name.startswith("_"):
            continue
        attr = getattr(type(v), name, None)
        if isinstance(attr, property):
            try:
                out.append((name, render(getattr(v, name))))
            except Exception as e:  # noqa: BLE001
                out.append((name, "raises " + type(e).__name__))
    try:
        out.append(("hash", hash(v)))
    except TypeError:
        pass
    return out


def op_table(t: str):
    """(name, callable(value, args) -> result) for the public operations exercised on type t. args: dict of ints."""
    from pyoda_time import DateAdjusters, Duration, IsoDayOfWeek, LocalTime, Offset, PeriodBuilder, TimeAdjusters

    def per(a):
        return PeriodBuilder(years=a["a"] % 5 - 2, months=a["b"] % 7 - 3, days=a["c"] % 40 - 20, hours=a["a"] % 50 - 25, nanoseconds=a["b"]).build()

    def dper(a):
        return PeriodBuilder(years=a["a"] % 5 - 2, months=a["b"] % 7 - 3, weeks=a["c"] % 5 - 2, days=a["c"] % 40 - 20).build()

    def tper(a):
        return PeriodBuilder(hours=a["a"] % 50 - 25, minutes=a["b"] % 100 - 50, nanoseconds=a["c"]).build()

    dur = lambda a: Duration.from_nanoseconds(a["c"] * 1_000_003 + a["a"])  # noqa: E731
    off = lambda a: Offset.from_seconds(a["a"] % 129601 - 64800)  # noqa: E731
    dow = lambda a: IsoDayOfWeek(a["a"] % 7 + 1)  # noqa: E731
    anycal = lambda a: pyo.cal(pyo.cal_ids()[a["b"] % len(pyo.cal_ids())])  # noqa: E731
    T = {
        "date": [
            ("plus_days", lambda v, a: v.plus_days(a["c"])), ("plus_weeks", lambda v, a: v.plus_weeks(a["a"] % 200 - 100)), ("plus_months", lambda v, a: v.plus_months(a["b"] % 100 - 50)),
            ("plus_years", lambda v, a: v.plus_years(a["a"] % 40 - 20)), ("next", lambda v, a: v.next(dow(a))), ("previous", lambda v, a: v.previous(dow(a))),
            ("with_calendar", lambda v, a: v.with_calendar(anycal(a))), ("at_midnight", lambda v, a: v.at_midnight()), ("at", lambda v, a: v.at(LocalTime.from_nanoseconds_since_midnight(a["c"] % DAY))),
            ("add-period", lambda v, a: v + dper(a)), ("sub-period", lambda v, a: v - dper(a)), ("sub-date", lambda v, a: v - v.plus_days(a["c"] % 1000)), ("with_offset", lambda v, a: v.with_offset(off(a))),
            ("to_year_month", lambda v, a: v.to_year_month()), ("adjust", lambda v, a: v.with_date_adjuster(DateAdjusters.end_of_month)), ("iter", lambda v, a: tuple(v)), ("at_start_of_day", lambda v, a: v.at_start_of_day_in_zone(Z.zone(ZONES[a["a"] % 4]))),
        ],
        "time": [
            ("plus_hours", lambda v, a: v.plus_hours(a["c"])), ("plus_minutes", lambda v, a: v.plus_minutes(a["b"])), ("plus_nanoseconds", lambda v, a: v.plus_nanoseconds(a["c"] * 977)), ("add-period", lambda v, a: v + tper(a)),
            ("sub-period", lambda v, a: v - tper(a)), ("sub-time", lambda v, a: v - v.plus_seconds(a["a"])), ("with_offset", lambda v, a: v.with_offset(off(a))), ("on", lambda v, a: v.on(pyo.date_from_day("ISO", a["c"] % 100000))),
            ("adjust", lambda v, a: v.with_time_adjuster(TimeAdjusters.truncate_to_minute)), ("iter", lambda v, a: tuple(v)),
        ],
        "datetime": [
            ("plus_days", lambda v, a: v.plus_days(a["c"] % 5000 - 2500)), ("plus_months", lambda v, a: v.plus_months(a["b"] % 60 - 30)), ("plus_years", lambda v, a: v.plus_years(a["a"] % 20 - 10)), ("plus_hours", lambda v, a: v.plus_hours(a["c"])),
            ("plus_nanoseconds", lambda v, a: v.plus_nanoseconds(a["c"] * 1_000_003)), ("add-period", lambda v, a: v + per(a)), ("sub-period", lambda v, a: v - per(a)), ("sub-ldt", lambda v, a: v - v.plus_hours(a["a"] % 5000)),
            ("with_calendar", lambda v, a: v.with_calendar(anycal(a))), ("with_offset", lambda v, a: v.with_offset(off(a))), ("in_utc", lambda v, a: v.in_utc()), ("in_zone_leniently", lambda v, a: v.in_zone_leniently(Z.zone(ZONES[a["a"] % 4]))),
            ("adjust-date", lambda v, a: v.with_date_adjuster(DateAdjusters.start_of_month)), ("adjust-time", lambda v, a: v.with_time_adjuster(TimeAdjusters.truncate_to_hour)), ("next", lambda v, a: v.next(dow(a))),
        ],
        "duration": [
            ("add", lambda v, a: v + dur(a)), ("sub", lambda v, a: v - dur(a)), ("neg", lambda v, a: -v), ("mul", lambda v, a: v * (a["a"] % 7 - 3)), ("div", lambda v, a: v / (a["a"] % 7 + 1)), ("div-dur", lambda v, a: v / (dur(a) + Duration.epsilon)),
            ("max", lambda v, a: Duration.max(v, dur(a))), ("to_timedelta", lambda v, a: v.to_timedelta()),
        ],
        "instant": [
            ("add", lambda v, a: v + dur(a)), ("sub", lambda v, a: v - dur(a)), ("sub-inst", lambda v, a: v - Z.inst(a["c"])), ("plus_ticks", lambda v, a: v.plus_ticks(a["c"])), ("in_utc", lambda v, a: v.in_utc()),
            ("with_offset", lambda v, a: v.with_offset(off(a))), ("in_zone", lambda v, a: v.in_zone(Z.zone(ZONES[a["a"] % 4]))), ("max", lambda v, a: type(v).max(v, Z.inst(a["c"]))),
        ],
        "offset": [("add", lambda v, a: v + off(a)), ("sub", lambda v, a: v - off(a)), ("neg", lambda v, a: -v), ("pos", lambda v, a: +v), ("max", lambda v, a: Offset.max(v, off(a))), ("to_timedelta", lambda v, a: v.to_timedelta())],
        "period": [
            ("add", lambda v, a: v + per(a)), ("sub", lambda v, a: v - per(a)), ("normalize", lambda v, a: v.normalize()), ("to_duration", lambda v, a: v.to_duration()),
            ("builder-mutation", lambda v, a: _mutate_builder(v, a)),
        ],
        "yearmonth": [("plus_months", lambda v, a: v.plus_months(a["b"] % 60 - 30)), ("on_day_of_month", lambda v, a: v.on_day_of_month(1 + a["a"] % 28)), ("to_date_interval", lambda v, a: v.to_date_interval())],
        "annual": [("in_year", lambda v, a: v.in_year(1 + a["c"] % 9999)), ("is_valid_year", lambda v, a: v.is_valid_year(a["c"] % 9999))],
        "offsetdate": [("with_offset", lambda v, a: v.with_offset(off(a))), ("with_calendar", lambda v, a: v.with_calendar(anycal(a))), ("at", lambda v, a: v.at(LocalTime.from_nanoseconds_since_midnight(a["c"] % DAY))), ("adjust", lambda v, a: v.with_date_adjuster(DateAdjusters.end_of_month))],
        "offsettime": [("with_offset", lambda v, a: v.with_offset(off(a))), ("on", lambda v, a: v.on(pyo.date_from_day("ISO", a["c"] % 100000))), ("adjust", lambda v, a: v.with_time_adjuster(TimeAdjusters.truncate_to_second))],
        "offsetdatetime": [
            ("with_offset", lambda v, a: v.with_offset(off(a))), ("with_calendar", lambda v, a: v.with_calendar(anycal(a))), ("add", lambda v, a: v + dur(a)), ("sub", lambda v, a: v - dur(a)), ("sub-odt", lambda v, a: v - (v + dur(a))),
            ("plus_hours", lambda v, a: v.plus_hours(a["a"])), ("in_fixed_zone", lambda v, a: v.in_fixed_zone()), ("in_zone", lambda v, a: v.in_zone(Z.zone(ZONES[a["a"] % 4]))), ("to_offset_date", lambda v, a: v.to_offset_date()),
            ("to_offset_time", lambda v, a: v.to_offset_time()), ("adjust-date", lambda v, a: v.with_date_adjuster(DateAdjusters.start_of_month)), ("adjust-time", lambda v, a: v.with_time_adjuster(TimeAdjusters.truncate_to_minute)),
        ],
        "zoned": [("add", lambda v, a: v + dur(a)), ("to_instant", lambda v, a: v.to_instant()), ("to_offset_date_time", lambda v, a: v.to_offset_date_time())],
        "interval": [("contains", lambda v, a: Z.inst(a["c"]) in v), ("iter", lambda v, a: tuple(v)), ("duration", lambda v, a: v.duration)],
        "dateinterval": [("and", lambda v, a: v & v), ("or", lambda v, a: v | v), ("len", lambda v, a: len(v)), ("contains", lambda v, a: v.start in v), ("iter", lambda v, a: [d for _, d in zip(range(5), v)])],
        "zoneinterval": [("contains", lambda v, a: Z.inst(a["c"]) in v), ("with_start", lambda v, a: v._with_start(Z.inst(INST_MIN))), ("duration", lambda v, a: v.duration)],
        "fixedzone": [("get_zone_interval", lambda v, a: v.get_zone_interval(Z.inst(a["c"]))), ("get_utc_offset", lambda v, a: v.get_utc_offset(Z.inst(a["c"]))), ("map_local", lambda v, a: v.map_local(pyo.ldt_from("ISO", a["c"] % 100000, 0)))],
    }
    return T[t]


def _mutate_builder(p, a):
    b = p.to_builder()
    b.years += 7
    b.nanoseconds -= a["c"]
    b.days = 99
    return b.build()


def _k_immut(c) -> CaseInfo:
    t, spec, ops = c["type"], c["spec"], c["ops"]
    if t not in TYPES or not valid_spec(t, spec):
        raise InvalidCase
    table = op_table(t)
    base = make(t, spec, c.get("route", 0) % 2)
    born: list[tuple[object, list, str]] = [(base, snapshot(base), "base")]
    produced = 0
    cur = base
    for op in ops:
        ix, args = op["ix"], op["args"]
        if not all(isinstance(args.get(k), int) for k in "abc"):
            raise InvalidCase
        name, fn = table[ix % len(table)]
        try:
            res = fn(cur, args)
        except (ValueError, OverflowError, ArithmeticError, RuntimeError, TypeError, IndexError):
            res = None
        # every value ever produced still looks as it did at birth
        for obj, snap, origin in born:
            now = snapshot(obj)
            if now != snap:
                diff = next((a_ for a_, b_ in zip(now, snap) if a_ != b_), "?")
                raise Mismatch(f"mutated/{t}/{name}", f"after {name}({args}) the {origin} value changed: {diff} (was {next((b_ for a_, b_ in zip(now, snap) if a_ != b_), '?')})")
        if res is not None and type(res) is type(base):
            need(res is not cur or True, "noop")
            born.append((res, snapshot(res), name))
            produced += 1
            if op.get("follow", True):
                cur = res
    return CaseInfo(produced >= 3, f"immut:{t}")


# ---------------------------------------------------------------------------------------------------------------


def st_spec(t: str):
    units = (100, 10**6, SEC, 3600 * SEC, DAY)
    cal_day = pyo.st_cal_day()
    nod = pyo.st_nod()
    offs = ints_biased(-64800, 64800, (60, 3600))
    inst = st.one_of(ints_biased(INST_MIN, INST_MAX, units), ints_biased(-(10**18), 10**18, units))
    if t == "duration":
        return st.one_of(ints_biased(DUR_MIN, DUR_MAX, units), ints_biased(-3 * DAY, 3 * DAY, units)).map(lambda n: {"ns": n})
    if t == "instant":
        return inst.map(lambda i: {"i": i})
    if t in ("offset", "fixedzone"):
        return offs.map(lambda s: {"s": s})
    if t == "date":
        return cal_day.map(lambda cd: {"cal": cd[0], "n": cd[1]})
    if t == "time":
        return nod.map(lambda n: {"ns": n})
    if t == "datetime":
        return st.tuples(cal_day, nod).map(lambda x: {"cal": x[0][0], "n": x[0][1], "ns": x[1]})
    if t == "yearmonth":
        def ym(cd):
            d = pyo.date_from_day(cd[0], cd[1])
            return {"cal": cd[0], "y": d.year, "m": d.month}

        return cal_day.map(ym)
    if t == "annual":
        return st.tuples(st.integers(1, 12), st.integers(1, 31)).map(lambda md: {"m": md[0], "d": min(md[1], [31, 29, 31, 30, 31, 30, 31, 31, 30, 31, 30, 31][md[0] - 1])})
    if t == "offsetdate":
        return st.tuples(cal_day, offs).map(lambda x: {"cal": x[0][0], "n": x[0][1], "s": x[1]})
    if t == "offsettime":
        return st.tuples(nod, offs).map(lambda x: {"ns": x[0], "s": x[1]})
    if t == "offsetdatetime":
        return st.tuples(cal_day, nod, offs).map(lambda x: {"cal": x[0][0], "n": x[0][1], "ns": x[1], "s": x[2]})
    if t == "zoned":
        return st.tuples(ints_biased(-(10**18), 2 * 10**18, units), st.sampled_from(ZONES), st.sampled_from(["ISO", "Julian", "Gregorian", "Coptic"])).map(lambda x: {"i": x[0], "zone": x[1], "cal": x[2]})
    if t == "interval":
        return st.tuples(st.one_of(st.none(), inst), st.one_of(st.none(), inst)).map(lambda x: {"s": x[0], "e": x[1]} if x[0] is None or x[1] is None or x[0] <= x[1] else {"s": x[1], "e": x[0]})
    if t == "dateinterval":
        return st.tuples(cal_day, st.integers(0, 40)).map(lambda x: {"cal": x[0][0], "a": x[0][1], "b": min(pyo.cal(x[0][0])._max_days, x[0][1] + x[1])})
    if t == "period":
        return st.dictionaries(st.sampled_from(PERIOD_FIELDS), st.integers(-50, 50), max_size=5)
    if t == "zoneinterval":
        return st.tuples(st.one_of(st.none(), inst), st.integers(1, 10**17), st.booleans(), st.sampled_from(["A", "B", "GMT"]), offs, st.sampled_from([0, 3600])).map(
            lambda x: {"s": x[0], "e": None if x[2] or x[0] is None else min(INST_MAX, x[0] + x[1]), "name": x[3], "wall": x[4], "sav": x[5]}
        )
    raise InvalidCase


def tweak(t: str, s: dict, k: int) -> dict:
    """A spec differing from s in exactly one component (where possible)."""
    s2 = dict(s)
    keys = sorted(s2)
    if not keys:
        return {"days": 1} if t == "period" else s2
    kk = keys[k % len(keys)]
    v = s2[kk]
    if isinstance(v, int):
        s2[kk] = v + 1
    elif kk == "cal":
        ids = pyo.cal_ids()
        s2[kk] = ids[(ids.index(v) + 1 + k) % len(ids)]
    elif kk == "zone":
        s2[kk] = ZONES[(ZONES.index(v) + 1) % len(ZONES)]
    elif kk == "name":
        s2[kk] = v + "x"
    elif v is None:
        s2[kk] = 0
    return s2


def near(t: str, s: dict, d: int) -> dict:
    """A spec a moderate distance (up to ~13 months) away from s on its main axis, same calendar: ordering bugs that
    need two values in the same year but different months (e.g. Hebrew month 13 vs month 1) live here."""
    s2 = dict(s)
    if "n" in s2 and "cal" in s2:
        c = pyo.cal(s2["cal"])
        s2["n"] = max(c._min_days, min(c._max_days, s2["n"] + d))
    elif t == "yearmonth":
        c = pyo.cal(s2["cal"])
        s2["m"] = 1 + (s2["m"] - 1 + d) % c.get_months_in_year(s2["y"])
    elif t == "dateinterval":
        c = pyo.cal(s2["cal"])
        w = s2["b"] - s2["a"]
        s2["a"] = max(c._min_days, min(c._max_days - w, s2["a"] + d))
        s2["b"] = s2["a"] + w
    elif t == "annual":
        s2["m"] = 1 + (s2["m"] - 1 + d) % 12
        s2["d"] = min(s2["d"], [31, 29, 31, 30, 31, 30, 31, 31, 30, 31, 30, 31][s2["m"] - 1])
    elif "ns" in s2 and t in ("time", "offsettime"):
        s2["ns"] = (s2["ns"] + d * 3600 * SEC) % DAY
    elif "i" in s2:
        s2["i"] = max(INST_MIN + 20 * 3600 * SEC, min(INST_MAX - 20 * 3600 * SEC, s2["i"] + d * 3600 * SEC))
    else:
        return tweak(t, s, d)
    return s2


def task_hyp(ctx: Ctx, shard: int, n: int) -> None:
    s = sub_seed(ctx.seed, "c12", shard)
    t = TYPES[shard % len(TYPES)]
    arg = st.fixed_dictionaries({"a": st.integers(0, 10**6), "b": st.integers(0, 10**6), "c": ints_biased(-(10**12), 10**12, (86400, 10**9))})
    ops = st.lists(st.fixed_dictionaries({"ix": st.integers(0, 40), "args": arg, "follow": st.booleans()}), min_size=1, max_size=12)

    def body(a, b, picks, routes, tw, ops_, nd):
        pool = [a, b, tweak(t, a, tw), dict(a), near(t, a, nd)]
        specs = [pool[p % len(pool)] for p in picks]
        if all(valid_spec(t, sp) for sp in specs):
            ctx.case("triple", {"type": t, "specs": specs, "routes": routes})
        ctx.case("immut", {"type": t, "spec": a, "ops": ops_, "route": routes[0]})

    run_hypothesis(
        body,
        dict(a=st_spec(t), b=st_spec(t), picks=st.lists(st.integers(0, 4), min_size=3, max_size=3), routes=st.lists(st.integers(0, 1), min_size=3, max_size=3), tw=st.integers(0, 10), ops_=ops, nd=st.integers(-400, 400)),
        n,
        s,
    )


def tasks(tier: str, seed: int) -> list[Task]:
    n = 2000 if tier == "quick" else 30000
    out = [Task("task_hyp", {"shard": i, "n": n}, f"hyp-{TYPES[i % len(TYPES)]}-{i}") for i in range(len(TYPES))]
    ids = pyo.cal_ids()
    # calendar-aware ordering: 19 (quick) / 200 (thorough) consecutive years from a seed-chosen start, per calendar
    for j in range(0, len(ids), 2):
        out.append(Task("task_calorder", {"cids": ids[j : j + 2], "years": 19 if tier == "quick" else 200, "salt": 0}, f"calorder-{j}"))
    return out
