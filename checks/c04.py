"""C04 - each time zone partitions the whole timeline into maximal offset intervals.

Invariants over interval walks of every provider zone (and fixed / synthetic zones), plus generated instants.
"""

from __future__ import annotations

from hypothesis import strategies as st

from harness import pyo
from harness import zones as Z
from harness.core import CaseInfo, Ctx, InvalidCase, Mismatch, Task, sub_seed
from harness.gen import ints_biased, run_hypothesis

PROPERTY = "C04"
LEVEL = "exploration"
RULE = (
    "Interval walks of every provider id: quick = the whole stored (precalculated) part of every zone plus, for "
    "tailed zones, the first 5 tail years, 2037-2040, 9990-end and 40 seed-chosen years; thorough = every interval "
    "from the start to the end of time (exhaustive for the bundled database). Plus generated instants (local "
    "adjacency form), all cached fixed-offset zones and generated offsets, and synthetic zones built from generated "
    "yearly rules / period lists (incl. Feb-29 rules); per interval also duration, ISO local bounds and the refusal to "
    "name a missing bound. Non-trivial = an interval with both ends (a real transition on each side); "
    "distinct by construction per (zone, interval start) in walks, (kind, case) hash otherwise."
)
ASSUMPTIONS = ["synthetic zones (not in the property's scope) are checked for containment/abutment/termination only"]
CASE_SCALE = {"synthetic": 10, "window": 10}

DAY = Z.DAY
SEC = Z.SEC


def exhaustive(tier: str) -> bool:
    return tier == "thorough"


def need(cond: bool, sig: str, msg: str = "") -> None:
    if not cond:
        raise Mismatch(sig, msg)


def eval_case(kind: str, c: dict) -> CaseInfo:
    return globals()["_k_" + kind](c)


def check_interval(z, iv, t_ns: int | None, zid: str) -> None:
    """Everything that can be said about one interval in isolation (t_ns = the instant it was looked up for)."""
    from pyoda_time import Offset

    s, e = iv_bounds(iv)
    if t_ns is not None:
        need(s <= t_ns < e, "lookup-not-contained", f"{zid}: interval [{s},{e}) returned for {t_ns}")
        need(Z.inst(t_ns) in iv, "contains-operator", f"{zid}: {t_ns}")
    need(s < e, "empty-interval", f"{zid}: [{s},{e})")
    wall, sav = iv.wall_offset.seconds, iv.savings.seconds
    need(iv.standard_offset.seconds + sav == wall, "wall-ne-standard-plus-savings", f"{zid}: {iv.standard_offset.seconds}+{sav}!={wall}")
    need(z.min_offset.seconds <= wall <= z.max_offset.seconds, "offset-outside-min-max", f"{zid}: wall {wall} not in [{z.min_offset.seconds},{z.max_offset.seconds}] at {s}")
    probes = []
    if iv.has_start:
        probes.append(s)
    if iv.has_end:
        probes.append(e - 1)
    lo, hi = max(s, Z.INST_MIN), min(e - 1, Z.INST_MAX)
    probes.append(lo + (hi - lo) // 3)
    for p in probes:
        off = z.get_utc_offset(Z.inst(p))
        need(isinstance(off, Offset) and off.seconds == wall, "utc-offset-ne-wall", f"{zid}: at {p} offset {off.seconds} but interval wall {wall}")
    # derived accessors of the interval value: duration, ISO local bounds, and the refusal to name a missing bound
    if iv.has_start and iv.has_end:
        need(iv.duration.to_nanoseconds() == e - s, "interval/duration", f"{zid}: {iv.duration.to_nanoseconds()} != {e - s}")
    else:
        for acc in (("start", "iso_local_start") if not iv.has_start else ()) + (("end", "iso_local_end") if not iv.has_end else ()) + ("duration",):
            try:
                getattr(iv, acc)
            except (RuntimeError, ValueError, OverflowError):
                continue
            raise Mismatch(f"interval/{acc}-of-unbounded-interval-answered", f"{zid}: [{s},{e})")
    for has, bound, acc in ((iv.has_start, s, "iso_local_start"), (iv.has_end, e, "iso_local_end")):
        if has:
            local = bound + wall * Z.SEC
            if Z.INST_MIN <= local <= Z.INST_MAX:
                ldt = getattr(iv, acc)
                need(ldt.calendar.id == "ISO" and pyo.ldt_total(ldt) == local, f"interval/{acc}", f"{zid}: {pyo.ldt_total(ldt)} != {local}")
    if iv.has_end:
        again = z.get_zone_interval(Z.inst(e - 1))
        need(Z.iv_tuple(again) == Z.iv_tuple(iv), "end-minus-1ns-other-interval", f"{zid}: {Z.iv_tuple(again)} vs {Z.iv_tuple(iv)}")


def iv_bounds(iv) -> tuple[int, int]:
    s = Z.ns(iv.start) if iv.has_start else Z.BEFORE_MIN
    e = Z.ns(iv.end) if iv.has_end else Z.AFTER_MAX
    return s, e


def walk_check(ctx: Ctx, z, zid: str, start_ns: int, max_steps: int, stop_ns: int | None, expect_first: bool, synthetic: bool = False) -> tuple[int, int, bool]:
    """Walk forward with all invariants. Returns (steps, non-trivial, reached_end)."""
    prev = None
    steps = nt = 0
    reached_end = False
    t = start_ns
    case = {"zone": zid, "t": t}
    from harness.core import CaseTimeout, time_limit

    try:
        with time_limit():
            cur = z.get_zone_interval(Z.inst(t))
        while True:
            with time_limit():
                case = {"zone": zid, "t": t}
                check_interval(z, cur, t, zid)
                tup = Z.iv_tuple(cur)
                if prev is None:
                    if expect_first:
                        need(not cur.has_start, "first-interval-has-start", f"{zid}: {tup}")
                else:
                    need(tup[0] == prev[1], "gap-or-overlap", f"{zid}: {prev} then {tup}")
                    if not synthetic:
                        need(tup[2:] != prev[2:], "equal-neighbours", f"{zid}: {prev} then {tup}")
                steps += 1
                if cur.has_start and cur.has_end:
                    nt += 1
                prev = tup
                if not cur.has_end:
                    reached_end = True
                    break
                if steps >= max_steps or (stop_ns is not None and tup[1] > stop_ns):
                    break
                t = tup[1]
                cur = z.get_zone_interval(cur.end)
    except CaseTimeout:
        if hasattr(ctx, "confirm_slow_case"):
            ctx.confirm_slow_case("walk", case)
        else:
            raise
    except Mismatch as m:
        ctx.fail("walk", case, m.sig, m.msg)
    except Exception as e:  # noqa: BLE001
        ctx.fail_exc("walk", case, e)
    return steps, nt, reached_end


def _k_walk(c) -> CaseInfo:
    """Replay entry: the interval at t, its predecessor and successor."""
    z = Z.zone(c["zone"])
    _local(z, c["zone"], c["t"])
    return CaseInfo(True, "walk")


def _local(z, zid: str, t: int) -> bool:
    if not Z.INST_MIN <= t <= Z.INST_MAX:
        raise InvalidCase
    cur = z.get_zone_interval(Z.inst(t))
    check_interval(z, cur, t, zid)
    tup = Z.iv_tuple(cur)
    if cur.has_start:
        before = z.get_zone_interval(Z.inst(tup[0] - 1))
        check_interval(z, before, tup[0] - 1, zid)
        bt = Z.iv_tuple(before)
        need(bt[1] == tup[0], "gap-or-overlap", f"{zid}: {bt} then {tup}")
        need(bt[2:] != tup[2:], "equal-neighbours", f"{zid}: {bt} then {tup}")
    if cur.has_end:
        after = z.get_zone_interval(cur.end)
        check_interval(z, after, tup[1], zid)
        at = Z.iv_tuple(after)
        need(at[0] == tup[1], "gap-or-overlap", f"{zid}: {tup} then {at}")
        need(at[2:] != tup[2:], "equal-neighbours", f"{zid}: {tup} then {at}")
    return cur.has_start and cur.has_end


def _k_instant(c) -> CaseInfo:
    z = Z.zone(c["zone"])
    nt = _local(z, c["zone"], c["t"])
    return CaseInfo(nt, "instant")


def _k_window(c) -> CaseInfo:
    """get_zone_intervals over a window equals the walked slice."""
    from pyoda_time import Interval

    zid, a, b = c["zone"], c["a"], c["b"]
    if not (Z.INST_MIN <= a <= b <= Z.INST_MAX):
        raise InvalidCase
    z = Z.zone(zid)
    got = [Z.iv_tuple(iv) for iv in z.get_zone_intervals(start=Z.inst(a), end=Z.inst(b))]
    got2 = [Z.iv_tuple(iv) for iv in z.get_zone_intervals(interval=Interval(Z.inst(a), Z.inst(b)))]
    exp = []
    if a < b:
        for iv in Z.walk_from(z, a, 100000):
            tup = Z.iv_tuple(iv)
            if tup[0] >= b:
                break
            exp.append(tup)
    need(got == exp, "get_zone_intervals", f"{zid} [{a},{b}): {len(got)} vs {len(exp)} intervals")
    need(got2 == exp, "get_zone_intervals(interval)")
    return CaseInfo(len(exp) > 1, "window")


def _k_cached(c) -> CaseInfo:
    """The caching wrapper and the wrapped zone return equal intervals."""
    zid, t = c["zone"], c["t"]
    if not Z.INST_MIN <= t <= Z.INST_MAX:
        raise InvalidCase
    z = Z.zone(zid)
    inner = getattr(z, "_time_zone", None)
    if inner is None:
        raise InvalidCase
    a, b = z.get_zone_interval(Z.inst(t)), inner.get_zone_interval(Z.inst(t))
    need(Z.iv_tuple(a) == Z.iv_tuple(b) and a == b, "cached-vs-underlying", f"{zid} at {t}: {Z.iv_tuple(a)} vs {Z.iv_tuple(b)}")
    need(z.min_offset == inner.min_offset and z.max_offset == inner.max_offset and z.id == inner.id, "cached-vs-underlying/attrs")
    return CaseInfo(a.has_start and a.has_end, "cached")


def _k_fixed(c) -> CaseInfo:
    from pyoda_time import DateTimeZone, Instant, Offset

    s = c["s"]
    if abs(s) > 64800:
        raise InvalidCase
    z = DateTimeZone.for_offset(Offset.from_seconds(s))
    for t in (Z.INST_MIN, Z.INST_MAX, 0, c.get("t", 12345)):
        if Z.INST_MIN <= t <= Z.INST_MAX:
            iv = z.get_zone_interval(Z.inst(t))
            need(not iv.has_start and not iv.has_end, "fixed/bounded-interval", f"{s}")
            need(iv.wall_offset.seconds == s and iv.savings.seconds == 0 and iv.standard_offset.seconds == s, "fixed/offsets", f"{s}: {Z.iv_tuple(iv)}")
            need(z.get_utc_offset(Z.inst(t)).seconds == s, "fixed/utc-offset", f"{s}")
    need(z.min_offset.seconds == s == z.max_offset.seconds, "fixed/min-max", f"{s}: {z.min_offset.seconds} {z.max_offset.seconds}")
    ivs = list(z.get_zone_intervals(start=Instant.min_value, end=Instant.max_value))
    need(len(ivs) == 1, "fixed/one-interval")
    return CaseInfo(True, "fixed")


# --- synthetic zones -------------------------------------------------------------------------------------------


def build_synthetic(spec: dict):
    from pyoda_time import LocalTime, Offset
    from pyoda_time.time_zones import ZoneInterval
    from pyoda_time.time_zones._precalculated_date_time_zone import _PrecalculatedDateTimeZone
    from pyoda_time.time_zones._standard_daylight_alternating_map import _StandardDaylightAlternatingMap
    from pyoda_time.time_zones._transition_mode import _TransitionMode
    from pyoda_time.time_zones._zone_recurrence import _ZoneRecurrence
    from pyoda_time.time_zones._zone_year_offset import _ZoneYearOffset

    def rule(r):
        return _ZoneYearOffset._ctor(
            _TransitionMode(r["mode"]), r["month"], r["day"], r["dow"], r["advance"], LocalTime.from_milliseconds_since_midnight(r["ms"]), r["add_day"]
        )

    periods = []
    start = None
    for i, p in enumerate(spec["periods"]):
        end = Z.inst(p["end"])
        periods.append(ZoneInterval(name=f"P{i}", start=start, end=end, wall_offset=Offset.from_seconds(p["wall"]), savings=Offset.from_seconds(p["sav"])))
        start = end
    tail = None
    if spec.get("tail"):
        t = spec["tail"]
        std = _ZoneRecurrence("STD", Offset.zero, rule(t["std_rule"]), -(2**31), 2**31 - 1)
        dst = _ZoneRecurrence("DST", Offset.from_seconds(t["savings"]), rule(t["dst_rule"]), -(2**31), 2**31 - 1)
        tail = _StandardDaylightAlternatingMap._ctor(Offset.from_seconds(t["standard"]), std, dst)
    else:
        periods.append(ZoneInterval(name="LAST", start=start, end=None, wall_offset=Offset.from_seconds(spec["last_wall"]), savings=Offset.zero))
    return _PrecalculatedDateTimeZone("Synthetic", periods, tail)


def _valid_spec(spec: dict) -> bool:
    """The constructive domain of the synthetic generator (also what the shrinker must stay inside): rule
    occurrences stay inside their own year (months 2-11), the two rules are >= 2 months apart, savings != 0."""
    ends = [p["end"] for p in spec["periods"]]
    if not ends or ends != sorted(set(ends)) or not all(Z.INST_MIN < e < Z.INST_MAX for e in ends):
        return False
    if any(abs(p["wall"]) > 64800 or abs(p["sav"]) > 64800 for p in spec["periods"]) or abs(spec.get("last_wall", 0)) > 64800:
        return False
    t = spec.get("tail")
    if t:
        a, b = t["std_rule"], t["dst_rule"]
        for r in (a, b):
            if not (2 <= r["month"] <= 11 and 0 <= r["dow"] <= 7 and 0 <= r["ms"] < 86_400_000 and r["mode"] in (0, 1, 2)):
                return False
            if r["day"] == 0 or abs(r["day"]) > 31:
                return False
        if abs(a["month"] - b["month"]) < 2 or t["savings"] == 0 or abs(t["standard"]) > 50400 or abs(t["savings"]) > 7200:
            return False
    return True


def _k_synthetic(c) -> CaseInfo:
    spec = c["spec"]
    if not _valid_spec(spec):
        raise InvalidCase
    # every spec inside the constructive domain is a well-formed zone: its construction (which already evaluates the
    # tail rules around the tail start) must succeed - an exception here is reported like any other
    z = build_synthetic(spec)

    class _C:
        f = None

        def fail(self, kind, case, sig, msg):
            self.f = self.f or Mismatch(sig, msg)

        def fail_exc(self, kind, case, e):
            self.f = self.f or e

    cc = _C()
    steps, nt, _ = walk_check(cc, z, "Synthetic", Z.INST_MIN, 60, None, True, synthetic=True)  # type: ignore[arg-type]
    _, _, reached = walk_check(cc, z, "Synthetic", Z.year_start_ns(9995), 60, None, False, synthetic=True)  # type: ignore[arg-type]
    if cc.f is None and not reached:
        cc.f = Mismatch("synthetic/no-final-interval", "walk from 9995 did not reach an interval without end")
    for t in c.get("probes", []):
        if Z.INST_MIN <= t <= Z.INST_MAX and cc.f is None:
            try:
                iv = z.get_zone_interval(Z.inst(t))
                check_interval(z, iv, t, "Synthetic")
                if iv.has_end:
                    nx = z.get_zone_interval(iv.end)
                    need(Z.iv_tuple(nx)[0] == Z.iv_tuple(iv)[1], "gap-or-overlap", f"synthetic at {t}")
            except RuntimeError as e:
                # documented: "Zone recurrence rules have identical transitions" for degenerate generated rules
                if "identical transitions" in str(e):
                    return CaseInfo(False, "synthetic:identical-transitions")
                raise
    if cc.f is not None:
        if isinstance(cc.f, RuntimeError) and "identical transitions" in str(cc.f):
            return CaseInfo(False, "synthetic:identical-transitions")
        raise cc.f
    return CaseInfo(bool(spec.get("tail")), "synthetic:tail" if spec.get("tail") else "synthetic:no-tail")


# ---------------------------------------------------------------------------------------------------------------


def task_walk_zones(ctx: Ctx, ids: list[str], thorough: bool, years: list[int]) -> None:
    ev = nt = 0
    for zid in ids:
        if ctx.should_abort():
            break
        z = Z.zone(zid)
        if thorough:
            s, t, reached = walk_check(ctx, z, zid, Z.INST_MIN, 10**7, None, True)
            ev += s
            nt += t
            if not reached:
                ctx.fail("walk", {"zone": zid, "t": Z.INST_MIN}, "no-final-interval", f"{zid}: walk did not end in an interval without end")
            continue
        # quick: the stored part (up to 2037 covers every stored period of the bundled data) ...
        s, t, reached = walk_check(ctx, z, zid, Z.INST_MIN, 10**6, Z.year_start_ns(2041), True)
        ev += s
        nt += t
        if reached:
            continue
        # ... and windows in the recurring tail
        for y in years:
            if ctx.should_abort():
                break
            s, t, _ = walk_check(ctx, z, zid, Z.year_start_ns(y), 4, None, False)
            ev += s
            nt += t
        s, t, reached = walk_check(ctx, z, zid, Z.year_start_ns(9990), 100, None, False)
        ev += s
        nt += t
        if not reached:
            ctx.fail("walk", {"zone": zid, "t": Z.year_start_ns(9990)}, "no-final-interval", f"{zid}: walk from 9990 did not end in an interval without end")
    ctx.bulk(ev, nt, "walk")
    ctx.sample("walk", {"zone": ids[0], "t": Z.INST_MIN, "walked_zones": len(ids)}, True)


def task_fixed(ctx: Ctx, lo: int, hi: int, step: int) -> None:
    for s in range(lo, hi, step):
        ctx.case("fixed", {"s": s})


def st_rule():
    return st.fixed_dictionaries(
        {
            "mode": st.integers(0, 2),
            "day": st.one_of(st.integers(1, 28), st.integers(-7, -1), st.sampled_from([29, 30, 31, -31, -28])),
            "dow": st.integers(0, 7),
            "advance": st.booleans(),
            "ms": st.one_of(st.sampled_from([0, 3600_000, 7200_000, 86_399_999]), st.integers(0, 86_399_999)),
            "add_day": st.booleans(),
        }
    )


def task_hyp(ctx: Ctx, shard: int, n: int) -> None:
    s = sub_seed(ctx.seed, "c04", shard)
    ids = Z.all_ids()
    canon = Z.canonical_ids()
    inst = st.one_of(
        ints_biased(Z.INST_MIN, Z.INST_MAX, (SEC, 3600 * SEC, DAY)),
        ints_biased(Z.year_start_ns(1850), Z.year_start_ns(2040), (3600 * SEC, DAY)),
        ints_biased(Z.year_start_ns(9990), Z.INST_MAX, (3600 * SEC, DAY)),
    )

    def mk_spec(t):
        nper, ends, walls, tail_on, std_rule, dst_rule, m1, gap, standard, savings, last_wall = t
        ends = sorted(set(ends))[:nper]
        periods = []
        prev_wall = None
        for i, e in enumerate(ends):
            w = walls[i % len(walls)]
            periods.append({"end": e, "wall": w, "sav": 0 if i % 2 == 0 else 3600 if abs(w) < 60000 else 0})
            prev_wall = w
        if not periods:
            periods = [{"end": 0, "wall": 0, "sav": 0}]
        spec = {"periods": periods, "last_wall": last_wall}
        if tail_on:
            std_rule = dict(std_rule, month=m1)
            dst_rule = dict(dst_rule, month=min(11, m1 + gap))
            for r in (std_rule, dst_rule):
                if r["month"] == 2 and r["day"] in (30, 31, -31):
                    r["day"] = 28
                if r["day"] == 31 and r["month"] in (4, 6, 9, 11):
                    r["day"] = 30
                if r["day"] in (-31,) and r["month"] in (2, 4, 6, 9, 11):
                    r["day"] = -28
            spec["tail"] = {"standard": standard, "savings": savings, "std_rule": std_rule, "dst_rule": dst_rule}
        return spec

    spec = st.tuples(
        st.integers(1, 6),
        st.lists(ints_biased(Z.year_start_ns(1800), Z.year_start_ns(2100), (3600 * SEC, DAY)), min_size=1, max_size=6),
        st.lists(ints_biased(-50400, 50400, (900, 3600)), min_size=1, max_size=6),
        st.booleans(),
        st_rule(),
        st_rule(),
        st.integers(2, 6),
        st.integers(3, 6),
        ints_biased(-50400, 50400, (900, 3600)),
        st.sampled_from([3600, 1800, 7200, -3600, 5400, 1200]),
        ints_biased(-50400, 50400, (900, 3600)),
    ).map(mk_spec)

    def body(zi, t, t2, fs, sp, probes):
        zid = ids[zi % len(ids)]
        ctx.case("instant", {"zone": zid, "t": t})
        czid = canon[zi % len(canon)]
        ctx.case("cached", {"zone": czid, "t": t})
        a, b = sorted((t, t2))
        if b - a > 40 * 365 * DAY:
            b = a + (b - a) % (40 * 365 * DAY)
        ctx.case("window", {"zone": zid, "a": a, "b": b})
        ctx.case("fixed", {"s": fs, "t": t})
        ctx.case("synthetic", {"spec": sp, "probes": probes})

    run_hypothesis(
        body,
        dict(zi=st.integers(0, 10**6), t=inst, t2=inst, fs=ints_biased(-64800, 64800, (60, 1800, 3600)), sp=spec, probes=st.lists(inst, max_size=3)),
        n,
        s,
    )


def tasks(tier: str, seed: int) -> list[Task]:
    ids = list(Z.all_ids())
    thorough = tier == "thorough"
    years = sorted({2041, 2042, 2043, 2044, 2045, 2100, 2399, 2400, 5000} | {2046 + sub_seed(seed, "c04y", i) % 7940 for i in range(40)})
    out = []
    # heavy zones (with a tail) are spread round-robin
    k = 48 if thorough else 16
    for i in range(k):
        chunk = ids[i::k]
        out.append(Task("task_walk_zones", {"ids": chunk, "thorough": thorough, "years": years}, f"walk-{i}"))
    out.append(Task("task_fixed", {"lo": -64800, "hi": 64801, "step": 1 if thorough else 900}, "fixed"))
    for i in range(6):
        out.append(Task("task_hyp", {"shard": i, "n": 500 if not thorough else 8000}, f"hyp-{i}"))
    return out
