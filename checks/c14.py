"""C14 - the tz database binary codec is lossless and canonical.

Oracle 1 (lossless): write x then a sentinel byte; the reader returns an equal value, then the sentinel, then no more data.
Oracle 2 (canonical): documented encoded sizes, and byte-for-byte re-encoding of every rule-based zone decoded from
the two real database files produced by the reference Noda Time compiler.
"""

from __future__ import annotations

import io

from hypothesis import strategies as st

from checks import c06
from harness import zones as Z
from harness.core import CaseInfo, Ctx, InvalidCase, Mismatch, Task, sub_seed
from harness.gen import ints_biased, run_hypothesis
from ref import nzd

PROPERTY = "C14"
LEVEL = "exploration"
RULE = (
    "Per primitive: compact milliseconds (thorough: all 172799999 values; quick: every multiple of 30 min / 1 min / 1 s "
    "+/- {0,1,29,30,31} ms plus generated), all 129601 offsets, counts and signed counts biased to 7-bit borders, "
    "transitions as (previous, value) from every encoding class and its borders, strings/dictionaries with and without "
    "a pool, yearly rules (all flag combinations), recurrences, alternating maps, generated precalculated zones; plus "
    "all 724 rule-based zones of the two real files re-encoded byte for byte. Non-trivial: a value on a "
    "representation border, or a zone with at least one hours-since-previous transition. Distinct by construction / hash."
)
ASSUMPTIONS = ["documented sizes: 30-minute multiples 1 byte, minute multiples 2, second multiples 3, otherwise 4 bytes"]
CASE_SCALE = {"real_zone": 10, "zone": 4}

DAY_MS = 86_400_000
SEC = Z.SEC
SENTINEL = 0xA5
EPOCH_1800 = nzd.EPOCH_1800_NS


def exhaustive(tier: str) -> bool:
    return False


def need(cond: bool, sig: str, msg: str = "") -> None:
    if not cond:
        raise Mismatch(sig, msg)


def eval_case(kind: str, c: dict) -> CaseInfo:
    return globals()["_k_" + kind](c)


def writer(pool=None):
    from pyoda_time.time_zones.io._date_time_zone_writer import _DateTimeZoneWriter

    buf = io.BytesIO()
    return buf, _DateTimeZoneWriter._ctor(buf, pool)


def reader(data: bytes, pool=None):
    from pyoda_time.time_zones.io._date_time_zone_reader import _DateTimeZoneReader

    return _DateTimeZoneReader._ctor(io.BytesIO(data), pool)


def roundtrip(write_fn, read_fn, what: str, pool_w=None, pool_r=None):
    """Returns (value read, encoded bytes without the sentinel)."""
    buf, w = writer(pool_w)
    write_fn(w)
    w.write_byte(SENTINEL)
    data = buf.getvalue()
    r = reader(data, pool_r if pool_r is not None else (tuple(pool_w) if pool_w is not None else None))
    val = read_fn(r)
    need(r.has_more_data, f"{what}/consumed-too-much", f"{data.hex()}")
    need(r.read_byte() == SENTINEL, f"{what}/not-exactly-consumed", f"{data.hex()}")
    need(not r.has_more_data, f"{what}/trailing")
    return val, data[:-1]


def ms_size(ms: int) -> int:
    v = ms + DAY_MS
    if v % 1_800_000 == 0:
        return 1
    if v % 60_000 == 0:
        return 2
    if v % 1000 == 0:
        return 3
    return 4


def check_ms(ms: int) -> None:
    val, enc = roundtrip(lambda w: w.write_milliseconds(ms), lambda r: r.read_milliseconds(), "milliseconds")
    need(val == ms, "milliseconds/value", f"{ms} -> {enc.hex()} -> {val}")
    need(len(enc) == ms_size(ms), "milliseconds/size", f"{ms}: {len(enc)} bytes ({enc.hex()}), documented {ms_size(ms)}")


def _k_ms(c) -> CaseInfo:
    ms = c["ms"]
    if not -DAY_MS < ms < DAY_MS:
        try:
            _, w = writer()
            w.write_milliseconds(ms)
        except ValueError:
            return CaseInfo(True, "ms:rejected")
        raise Mismatch("milliseconds/out-of-range-accepted", f"{ms}")
    check_ms(ms)
    return CaseInfo((ms + DAY_MS) % 1000 in (0, 1, 999, 30, 29, 31), "ms")


def check_offset(s: int) -> None:
    from pyoda_time import Offset

    val, enc = roundtrip(lambda w: w.write_offset(Offset.from_seconds(s)), lambda r: r.read_offset(), "offset")
    need(val.seconds == s, "offset/value", f"{s} -> {enc.hex()} -> {val.seconds}")
    need(len(enc) == ms_size(s * 1000), "offset/size", f"{s}: {len(enc)} bytes")


def _k_offset(c) -> CaseInfo:
    if abs(c["s"]) > 64800:
        raise InvalidCase
    check_offset(c["s"])
    return CaseInfo(True, "offset")


def varint_len(v: int) -> int:
    n = 1
    while v > 0x7F:
        v >>= 7
        n += 1
    return n


def _k_count(c) -> CaseInfo:
    n = c["n"]
    if not 0 <= n <= 2**31 - 1:
        try:
            _, w = writer()
            w.write_count(n)
        except ValueError:
            return CaseInfo(True, "count:rejected")
        raise Mismatch("count/out-of-range-accepted", f"{n}")
    val, enc = roundtrip(lambda w: w.write_count(n), lambda r: r.read_count(), "count")
    need(val == n, "count/value", f"{n} -> {enc.hex()} -> {val}")
    need(len(enc) == varint_len(n), "count/size", f"{n}: {len(enc)} bytes")
    return CaseInfo(n in (127, 128, 16383, 16384, 2**21 - 1, 2**21, 2**28 - 1, 2**28, 2**31 - 1) or varint_len(n + 1) != varint_len(n), "count")


def _k_signed(c) -> CaseInfo:
    n = c["n"]
    if not -(2**31) <= n <= 2**31 - 1:
        raise InvalidCase
    val, enc = roundtrip(lambda w: w.write_signed_count(n), lambda r: r.read_signed_count(), "signed_count")
    need(val == n, "signed_count/value", f"{n} -> {enc.hex()} -> {val}")
    zz = (n << 1) ^ (n >> 31)
    need(len(enc) == varint_len(zz & 0xFFFFFFFF), "signed_count/size", f"{n}: {len(enc)} bytes")
    return CaseInfo(n < 0 or abs(n) in (63, 64, 8191, 8192), "signed")


def inst_or_marker(v):
    from pyoda_time import Instant

    if v == "min":
        return Instant._before_min_value()
    if v == "max":
        return Instant._after_max_value()
    return Z.inst(v)


def expected_transition_size(prev, value) -> tuple[int, str]:
    if value in ("min", "max"):
        return 1, "marker"
    if prev not in (None, "min", "max"):
        delta = value - prev
        if delta % (3600 * SEC) == 0 and (1 << 7) <= delta // (3600 * SEC) < (1 << 21):
            return varint_len(delta // (3600 * SEC)), "hours"
    if value >= EPOCH_1800:
        d = value - EPOCH_1800
        if d % (60 * SEC) == 0 and (1 << 21) < d // (60 * SEC) <= 2**31 - 1:
            return varint_len(d // (60 * SEC)), "minutes"
    return 9, "raw"


def _k_transition(c) -> CaseInfo:
    prev, value = c["prev"], c["value"]
    for v in (prev, value):
        if isinstance(v, int) and (not Z.INST_MIN <= v <= Z.INST_MAX or v % 100 != 0):
            raise InvalidCase  # the format stores ticks
    if isinstance(prev, int) and isinstance(value, int) and value < prev:
        raise InvalidCase
    if prev == "max" or (prev is not None and value == "min"):
        raise InvalidCase
    P = None if prev is None else inst_or_marker(prev)
    V = inst_or_marker(value)
    val, enc = roundtrip(lambda w: w.write_zone_interval_transition(P, V), lambda r: r.read_zone_interval_transition(P), "transition")
    need(val == V, "transition/value", f"prev {prev} value {value} -> {enc.hex()} -> {val}")
    size, cls = expected_transition_size(prev, value)
    need(len(enc) == size, "transition/size", f"prev {prev} value {value}: {len(enc)} bytes ({enc.hex()}), documented {cls} form = {size}")
    return CaseInfo(cls != "raw" or c.get("border", False), f"transition:{cls}")


def _k_string(c) -> CaseInfo:
    strings, pooled = c["strings"], c["pooled"]
    pool = [] if pooled else None

    def wr(w):
        for s in strings:
            w.write_string(s)

    def rd(r):
        return [r.read_string() for _ in strings]

    val, enc = roundtrip(wr, rd, "string", pool_w=pool)
    need(val == strings, "string/value", f"{strings!r} -> {val!r}")
    if pooled:
        need(len(set(pool)) == len(pool) and set(pool) == set(strings), "string/pool-contents", f"{pool!r}")
        need(len(enc) == sum(varint_len(pool.index(s)) for s in strings), "string/pool-size")
    else:
        need(len(enc) == sum(varint_len(len(s.encode())) + len(s.encode()) for s in strings), "string/size")
    d = {strings[i]: strings[-1 - i] for i in range(len(strings))}
    val, _ = roundtrip(lambda w: w.write_dictionary(d), lambda r: r.read_dictionary(), "dictionary", pool_w=[] if pooled else None)
    need(val == d and list(val) == list(d), "dictionary/value", f"{d!r} -> {val!r}")
    return CaseInfo(any(not s.isascii() or s == "" for s in strings) or pooled, "string")


def mk_rule(r):
    from pyoda_time import LocalTime
    from pyoda_time.time_zones._transition_mode import _TransitionMode
    from pyoda_time.time_zones._zone_year_offset import _ZoneYearOffset

    return _ZoneYearOffset._ctor(_TransitionMode(r["mode"]), r["month"], r["day"], r["dow"], r["advance"], LocalTime.from_milliseconds_since_midnight(r["ms"]), r["add_day"])


def valid_rule(r) -> bool:
    if not (r["mode"] in (0, 1, 2) and 1 <= r["month"] <= 12 and r["day"] != 0 and 0 <= r["dow"] <= 7 and 0 <= r["ms"] < DAY_MS):
        return False
    # a day-of-month that exists in that month every year (a recurrence evaluates its rule for its first/last year)
    return abs(r["day"]) <= (28 if r["month"] == 2 else 30 if r["month"] in (4, 6, 9, 11) else 31)


def _k_rule(c) -> CaseInfo:
    from pyoda_time import Offset
    from pyoda_time.time_zones._standard_daylight_alternating_map import _StandardDaylightAlternatingMap
    from pyoda_time.time_zones._zone_recurrence import _ZoneRecurrence
    from pyoda_time.time_zones._zone_year_offset import _ZoneYearOffset

    r = c["rule"]
    if not valid_rule(r):
        raise InvalidCase
    yo = mk_rule(r)
    val, enc = roundtrip(lambda w: yo._write(w), lambda rd: _ZoneYearOffset.read(rd), "year_offset")
    need(val == yo and hash(val) == hash(yo), "year_offset/value", f"{r} -> {enc.hex()} -> {val!r}")
    flags = (r["mode"] << 5) | (r["dow"] << 2) | (2 if r["advance"] else 0) | (1 if r["add_day"] else 0)
    need(enc[0] == flags, "year_offset/flags", f"{r}: {enc[0]:#x} vs {flags:#x}")
    need(len(enc) == 1 + 1 + 1 + ms_size(r["ms"]), "year_offset/size", f"{r}: {len(enc)}")
    fy, ty, sav, name = c["from_year"], c["to_year"], c["savings"], c["name"]
    if fy in (-9998, 9999) or ty in (-9998, 9999):
        # a recurrence evaluates its rule in its first and last year when it is built; in the first / last year of the
        # supported range a rule near the year's edge (Dec 29 "next Sunday", Jan 1 "previous Monday") has no
        # representable occurrence, so such a recurrence cannot be constructed at all: outside the codec's domain
        raise InvalidCase
    rec = _ZoneRecurrence(name, Offset.from_seconds(sav), yo, fy, ty)
    pool: list[str] = []
    val2, _ = roundtrip(lambda w: rec._write(w), lambda rd: _ZoneRecurrence.read(rd), "recurrence", pool_w=pool)
    need(val2 == rec, "recurrence/value", f"{rec!r} -> {val2!r}")
    if valid_rule(c["rule2"]) and abs(c["rule2"]["month"] - r["month"]) >= 2:
        # the second recurrence may have positive, negative or no savings at all (documented: America/Resolute);
        # the map may be built with the recurrences in either order
        std = _ZoneRecurrence("S" + name, Offset.zero, mk_rule(c["rule2"]), -(2**31), 2**31 - 1)
        dst = _ZoneRecurrence("D" + name, Offset.from_seconds(sav), yo, -(2**31), 2**31 - 1)
        for first, second in ((std, dst), (dst, std)):
            amap = _StandardDaylightAlternatingMap._ctor(Offset.from_seconds(c["standard"]), first, second)
            pool = []
            val3, enc3 = roundtrip(lambda w: amap._write(w), lambda rd: _StandardDaylightAlternatingMap._read(rd), "alternating_map", pool_w=pool)
            need(val3 == amap, "alternating_map/value", f"savings {sav}")
            buf4, w4 = writer(list(pool))
            val3._write(w4)
            need(buf4.getvalue() == enc3, "alternating_map/re-encode-differs", f"savings {sav}: {enc3.hex()} vs {buf4.getvalue().hex()}")
    return CaseInfo(r["day"] < 0 or r["add_day"] or r["dow"] == 7, "rule")


def _k_zone(c) -> CaseInfo:
    """A generated precalculated zone round-trips (periods, tail) and re-encodes to the same bytes."""
    from checks import c04
    from pyoda_time.time_zones._precalculated_date_time_zone import _PrecalculatedDateTimeZone

    spec = c["spec"]
    if not c04._valid_spec(spec) or any(p["end"] % 100 for p in spec["periods"]):
        raise InvalidCase
    z = c04.build_synthetic(spec)  # a spec inside the constructive domain always builds (see C04)
    pool: list[str] = []
    buf, w = writer(pool)
    z._write(w)
    data = buf.getvalue()
    r = reader(data + bytes([SENTINEL]), tuple(pool))
    z2 = _PrecalculatedDateTimeZone._read(r, "Synthetic")
    need(r.read_byte() == SENTINEL and not r.has_more_data, "zone/not-exactly-consumed")
    buf2, w2 = writer(list(pool))
    z2._write(w2)
    need(buf2.getvalue() == data, "zone/re-encode-differs", f"{data.hex()} vs {buf2.getvalue().hex()}")
    for t in c.get("probes", []) + [p["end"] for p in spec["periods"]] + [Z.INST_MIN, Z.INST_MAX]:
        if Z.INST_MIN <= t <= Z.INST_MAX:
            a, b = z.get_zone_interval(Z.inst(t)), z2.get_zone_interval(Z.inst(t))
            need(Z.iv_tuple(a) == Z.iv_tuple(b), "zone/behaviour-differs", f"at {t}: {Z.iv_tuple(a)} vs {Z.iv_tuple(b)}")
    need(z2.min_offset == z.min_offset and z2.max_offset == z.max_offset, "zone/min-max")
    return CaseInfo(bool(spec.get("tail")), "zone")


def _k_real_zone(c) -> CaseInfo:
    """Decode a rule-based zone of a real file with the repo reader, re-encode with the repo writer: same bytes."""
    from pyoda_time.time_zones._precalculated_date_time_zone import _PrecalculatedDateTimeZone

    which, zid = c["file"], c["zone"]
    db = c06.ref_db(which)
    if zid not in db.zones or db.zones[zid].kind != "precalculated":
        raise InvalidCase
    rz = db.zones[zid]
    with open(c06.file_path(which), "rb") as fh:
        raw = fh.read()
    body = raw[rz.body_start : rz.payload_end]
    r = reader(body, tuple(db.pool))
    z = _PrecalculatedDateTimeZone._read(r, zid)
    need(not r.has_more_data, "real-zone/reader-left-bytes", f"{which}:{zid}")
    pool = list(db.pool)
    buf, w = writer(pool)
    z._write(w)
    out = buf.getvalue()
    need(len(pool) == len(db.pool), "real-zone/pool-grew")
    if out != body:
        i = next((k for k in range(min(len(out), len(body))) if out[k] != body[k]), min(len(out), len(body)))
        raise Mismatch("real-zone/re-encode-differs", f"{which}:{zid}: {len(out)} vs {len(body)} bytes, first difference at {i}: {out[i:i + 8].hex()} vs {body[i:i + 8].hex()}")
    return CaseInfo(rz.encodings.get("hours", 0) > 0, "real_zone")


# ---------------------------------------------------------------------------------------------------------------


def task_ms_range(ctx: Ctx, lo: int, hi: int) -> None:
    n = nt = 0
    for ms in range(lo, hi):
        try:
            check_ms(ms)
        except Mismatch as m:
            ctx.fail("ms", {"ms": ms}, m.sig, m.msg)
        except Exception as e:  # noqa: BLE001
            ctx.fail_exc("ms", {"ms": ms}, e)
        n += 1
        if (ms + DAY_MS) % 1000 in (0, 1, 999, 29, 30, 31):
            nt += 1
    ctx.bulk(n, nt, "ms:range")
    ctx.sample("ms", {"ms": lo}, True)


def task_ms_borders(ctx: Ctx, part: int, parts: int) -> None:
    n = 0
    seen = set()
    for unit in (1_800_000, 60_000, 1000):
        k0 = -(DAY_MS // unit)
        for k in range(k0 + part, DAY_MS // unit + 1, parts):
            for d in (0, 1, -1, 29, 30, 31, -30):
                ms = k * unit + d
                if -DAY_MS < ms < DAY_MS and ms not in seen:
                    seen.add(ms)
                    try:
                        check_ms(ms)
                    except Mismatch as m:
                        ctx.fail("ms", {"ms": ms}, m.sig, m.msg)
                    except Exception as e:  # noqa: BLE001
                        ctx.fail_exc("ms", {"ms": ms}, e)
                    n += 1
    ctx.bulk(n, n, "ms:borders")
    ctx.sample("ms", {"ms": 1_800_030}, True)
    for ms in (-DAY_MS, DAY_MS, -DAY_MS - 1, DAY_MS + 1, 10**12):
        ctx.case("ms", {"ms": ms})


def task_offsets(ctx: Ctx, lo: int, hi: int) -> None:
    for s in range(lo, hi):
        try:
            check_offset(s)
        except Mismatch as m:
            ctx.fail("offset", {"s": s}, m.sig, m.msg)
        except Exception as e:  # noqa: BLE001
            ctx.fail_exc("offset", {"s": s}, e)
    ctx.bulk(hi - lo, hi - lo, "offset:enumerated")
    ctx.sample("offset", {"s": lo}, True)


def task_real_zones(ctx: Ctx, which: str, ids: list[str]) -> None:
    for zid in ids:
        ctx.case("real_zone", {"file": which, "zone": zid})


def task_transition_borders(ctx: Ctx) -> None:
    H = 3600 * SEC
    M = 60 * SEC
    base = Z.year_start_ns(1950)
    for prev in (None, "min", base, Z.year_start_ns(1700), Z.INST_MIN, EPOCH_1800):
        for value in ("min", "max"):
            ctx.case("transition", {"prev": prev, "value": value, "border": True})
        if isinstance(prev, int):
            for hours in (1, 127, 128, 129, 2**14 - 1, 2**14, 2**21 - 1, 2**21, 2**21 + 1):
                for d in (0, 100, -100, M, SEC):
                    v = prev + hours * H + d
                    if v >= prev:
                        ctx.case("transition", {"prev": prev, "value": v, "border": True})
        for minutes in (0, 1, 2**21 - 1, 2**21, 2**21 + 1, 2**28, 2**31 - 2, 2**31 - 1, 2**31, 2**31 + 1):
            for d in (0, 100, SEC, -M):
                v = EPOCH_1800 + minutes * M + d
                if Z.INST_MIN <= v <= Z.INST_MAX and (not isinstance(prev, int) or v >= prev):
                    ctx.case("transition", {"prev": prev, "value": v, "border": True})
        for v in (Z.INST_MIN, Z.INST_MAX - 99, EPOCH_1800 - 100, EPOCH_1800 - M, 0):
            if not isinstance(prev, int) or v >= prev:
                ctx.case("transition", {"prev": prev, "value": v, "border": True})
    for n in (0, 1, 127, 128, 16383, 16384, 2**21 - 1, 2**21, 2**28 - 1, 2**28, 2**31 - 1, 2**31, -1, 2**40):
        ctx.case("count", {"n": n})
    for n in (0, -1, 1, 63, 64, -64, -65, 8191, 8192, -8192, -8193, 2**31 - 1, -(2**31)):
        ctx.case("signed", {"n": n})
    for mode in range(3):
        for dow in range(8):
            for adv in (False, True):
                for add in (False, True):
                    rule = {"mode": mode, "month": 3, "day": -1 if adv else 25, "dow": dow, "advance": adv, "add_day": add, "ms": 7_200_000}
                    ctx.case("rule", {"rule": rule, "rule2": dict(rule, month=10), "from_year": 1990, "to_year": 2**31 - 1, "savings": 3600, "standard": -18000, "name": "X"})


def task_hyp(ctx: Ctx, shard: int, n: int) -> None:
    from checks import c04

    s = sub_seed(ctx.seed, "c14", shard)
    tick_inst = ints_biased(Z.INST_MIN // 100, Z.INST_MAX // 100, (10**7, 60 * 10**7, 36 * 10**9)).map(lambda t: t * 100)
    hours = st.one_of(st.integers(0, 300), ints_biased(0, 2**21 + 10, (128, 2**14)), st.sampled_from([127, 128, 2**21 - 1, 2**21]))
    rule = st.fixed_dictionaries(
        {
            "mode": st.integers(0, 2),
            "month": st.integers(1, 12),
            "day": st.one_of(st.integers(1, 31), st.integers(-31, -1)),
            "dow": st.integers(0, 7),
            "advance": st.booleans(),
            "add_day": st.booleans(),
            "ms": st.one_of(st.sampled_from([0, 3_600_000, 7_200_000, DAY_MS - 1, 1_800_030]), st.integers(0, DAY_MS - 1)),
        }
    )
    text = st.text(max_size=12)
    years = st.one_of(st.integers(1, 9999), st.just(-(2**31)))

    def body(ms, cnt, sgn, prev, dh, rem, value, strings, pooled, r1, r2, fy, ty, sav, std, name, spec):
        ctx.case("ms", {"ms": ms})
        ctx.case("count", {"n": cnt})
        ctx.case("signed", {"n": sgn})
        v = prev + dh * 3600 * SEC + rem
        if Z.INST_MIN <= v <= Z.INST_MAX:
            ctx.case("transition", {"prev": prev, "value": v})
        a, b = sorted((prev, value))
        ctx.case("transition", {"prev": a, "value": b})
        ctx.case("transition", {"prev": None, "value": value})
        ctx.case("transition", {"prev": "min", "value": value})
        ctx.case("string", {"strings": strings, "pooled": pooled})
        ctx.case("rule", {"rule": r1, "rule2": r2, "from_year": fy if fy > 0 else -(2**31), "to_year": ty, "savings": sav, "standard": std, "name": name})
        ctx.case("zone", {"spec": spec, "probes": [value]})

    def mk_spec(t):
        ends, walls, tail_on, ra, rb, m1, gap, std, sav = t
        ends = sorted(set(e - e % 100 for e in ends))
        periods = [{"end": e, "wall": walls[i % len(walls)], "sav": 0 if i % 2 == 0 else 3600} for i, e in enumerate(ends)]
        spec = {"periods": periods, "last_wall": walls[0]}
        if tail_on:
            spec["tail"] = {"standard": std, "savings": sav, "std_rule": dict(ra, month=m1, day=max(-28, min(28, ra["day"]))), "dst_rule": dict(rb, month=min(11, m1 + gap), day=max(-28, min(28, rb["day"])))}
        return spec

    spec = st.tuples(
        st.lists(ints_biased(Z.year_start_ns(1800), Z.year_start_ns(2100), (3600 * SEC, 60 * SEC, Z.DAY)), min_size=1, max_size=6),
        st.lists(ints_biased(-50400, 50400, (900, 3600)), min_size=1, max_size=6),
        st.booleans(),
        rule,
        rule,
        st.integers(2, 6),
        st.integers(3, 5),
        ints_biased(-50400, 50400, (900, 3600)),
        st.sampled_from([3600, 1800, 7200, -3600, 1200]),
    ).map(mk_spec)

    run_hypothesis(
        body,
        dict(
            ms=st.one_of(ints_biased(-DAY_MS + 1, DAY_MS - 1, (1000, 60_000, 1_800_000)), st.integers(-DAY_MS - 5, DAY_MS + 5)),
            cnt=ints_biased(0, 2**31 - 1, (128, 2**14, 2**21, 2**28), 0.01),
            sgn=ints_biased(-(2**31), 2**31 - 1, (64, 2**13, 2**20)),
            prev=tick_inst,
            dh=hours,
            rem=st.sampled_from([0, 0, 0, 100, 60 * SEC, SEC, -100]),
            value=tick_inst,
            strings=st.lists(text, min_size=1, max_size=5),
            pooled=st.booleans(),
            r1=rule,
            r2=rule,
            fy=st.integers(-5, 9999),
            ty=st.one_of(st.integers(1, 9999), st.just(2**31 - 1)),
            sav=st.sampled_from([0, 3600, 1800, -3600, 7200, 1]),
            std=ints_biased(-50400, 50400, (900, 3600)),
            name=text,
            spec=spec,
        ),
        n,
        s,
    )


def tasks(tier: str, seed: int) -> list[Task]:
    thorough = tier == "thorough"
    out = []
    if thorough:
        k = 96
        size = (2 * DAY_MS - 1) // k + 1
        lo0 = -DAY_MS + 1
        for j in range(k):
            out.append(Task("task_ms_range", {"lo": lo0 + j * size, "hi": min(DAY_MS, lo0 + (j + 1) * size)}, f"ms-{j}"))
    else:
        for j in range(6):
            out.append(Task("task_ms_borders", {"part": j, "parts": 6}, f"msb-{j}"))
    out.append(Task("task_offsets", {"lo": -64800, "hi": 0}, "off-a"))
    out.append(Task("task_offsets", {"lo": 0, "hi": 64801}, "off-b"))
    for which in c06.FILES:
        ids = sorted(z for z, v in c06.ref_db(which).zones.items() if v.kind == "precalculated")
        for j in range(3):
            out.append(Task("task_real_zones", {"which": which, "ids": ids[j::3]}, f"real-{which}-{j}"))
    out.append(Task("task_transition_borders", {}, "borders"))
    for j in range(4):
        out.append(Task("task_hyp", {"shard": j, "n": 1500 if not thorough else 25000}, f"hyp-{j}"))
    return out
