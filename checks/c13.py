"""C13 - results do not depend on call history or on concurrent use.

Part 1: generated query histories built to alias cache slots (year-start caches, the 512-slot zone-interval hash
cache, the least-recently-added format-info / pattern caches, the lazily filled provider map); after every step the
answer must equal a cache-free evaluation (independent reference, underlying zone, fresh objects).
Part 2: the same queries issued by 2-4 threads against shared cold objects under generated line-level schedules
(harness/sched.py) and by 16 real threads; identity claims must hold across threads.
"""

from __future__ import annotations

import sys
import threading

from hypothesis import strategies as st

from checks import c06
from harness import pyo, sched
from harness import text as T
from harness import zones as Z
from harness.core import CaseInfo, Ctx, InvalidCase, Mismatch, Task, sub_seed
from harness.gen import ints_biased, run_hypothesis
from ref import calendars as rc

PROPERTY = "C13"
LEVEL = "exploration"
RULE = (
    "Query histories generated to collide in caches: year starts and the whole month structure (lengths, month "
    "starts, month ends -> date) for y, y+/-1024, y+/-2048 incl. slot-boundary years in every calendar (both "
    "Hebrew numberings share one cache), zone-interval lookups at i, i+/-512*32 days, i+/-1024*32 days through the "
    "caching wrapper, pattern/format-info lookups cycling through > 500 cultures and back, provider lookups of ids, "
    "aliases, fixed ids and unknown ids in any order; and 2-4 threads issuing such queries against cold shared "
    "objects under generated schedules plus a 16-thread stress run. Non-trivial: a history where two keys share a "
    "slot and the earlier one is asked again, or a schedule with a pre-emption. Distinct = case hash."
)
ASSUMPTIONS = [
    "cache-free oracles: ref/calendars.py (arithmetic calendars), _calculate_start_of_year_days (table calendars), the wrapped zone and ref/tzrules for zone intervals, fresh DateTimeZoneCache / cleared format-info cache",
    "pre-emption is modelled at source-line granularity inside the cache modules",
]
CASE_SCALE = {"patterns": 40, "stress": 40, "sched_zone": 4, "sched_years": 4, "sched_provider": 4}  # hundreds of cultures / 16 real threads per case

DAY = Z.DAY
PERIOD = 32 * DAY
TRACE_FILES = (
    "time_zones/_date_time_zone_cache.py",
    "time_zones/_caching_zone_interval_map.py",
    "time_zones/_cached_date_time_zone.py",
    "calendars/_year_month_day_calculator.py",
    "calendars/_year_start_cache_entry.py",
    "calendars/_hebrew_scriptural_calculator.py",
    "utility/_cache.py",
)


def need(cond: bool, sig: str, msg: str = "") -> None:
    if not cond:
        raise Mismatch(sig, msg)


def eval_case(kind: str, c: dict) -> CaseInfo:
    return globals()["_k_" + kind](c)


# --- oracles -------------------------------------------------------------------------------------------------------


_CHAIN: dict[str, dict[int, int]] = {}


def year_start_oracle(cid: str, y: int) -> int:
    cal = pyo.cal(cid)
    ref = rc.reference_for(cid)
    if ref is not None and not (cid == "Persian Arithmetic" and y < 475):
        return ref.start_of_year(y)
    # table-driven calendars: chain the year lengths up from the calendar's first day, once, in ascending order
    # (a harness-side memo: independent of whatever the test history asked the library before)
    ch = _CHAIN.get(cid)
    if ch is None:
        ch = {}
        s0 = cal._min_days
        for yy in range(cal.min_year, cal.max_year + 1):
            ch[yy] = s0
            s0 += cal.get_days_in_year(yy)
        ch[cal.max_year + 1] = s0
        _CHAIN[cid] = ch
    return ch[y]


_MONTHS: dict[tuple[str, int], list] = {}


def month_table_oracle(cid: str, y: int) -> list:
    """[(month, day number of its first day, length)] for every month of the year.

    Reference calendars: independent arithmetic. Table-driven calendars (no independent reference): the answer the
    library gave the first time this process asked (so later answers must not depend on what was asked in between);
    the stress and fresh-process comparisons cover the first answer itself.
    """
    ref = rc.reference_for(cid)
    if ref is not None and not (cid == "Persian Arithmetic" and y < 475):
        return [(m, ref.to_days(y, m, 1), ref.days_in_month(y, m)) for m in range(1, ref.months_in_year(y) + 1)]
    key = (cid, y)
    if key not in _MONTHS:
        cal = pyo.cal(cid)
        out = []
        for m in range(1, cal.get_months_in_year(y) + 1):
            try:
                out.append((m, _month_start_query(cid, y, m), cal.get_days_in_month(y, m)))
            except (ValueError, OverflowError):
                continue
        _MONTHS[key] = out
    return _MONTHS[key]


def _month_start_query(cid: str, y: int, m: int) -> int:
    from pyoda_time import LocalDate

    return LocalDate(y, m, 1, pyo.cal(cid))._days_since_epoch


def year_start_query(cid: str, y: int) -> int:
    from pyoda_time import LocalDate

    cal = pyo.cal(cid)
    d = LocalDate(y, 1, 1, cal)
    return d._days_since_epoch - (d.day_of_year - 1)


def fresh_calendar_queries(cid: str, y: int) -> tuple[int, int]:
    cal = pyo.cal(cid)
    return year_start_query(cid, y), cal.get_days_in_year(y)


def _k_years(c) -> CaseInfo:
    """History of (calendar, year) queries; every answer equals the cache-free value."""
    qs = c["queries"]
    seen_slots: dict[tuple[str, int], int] = {}
    nt = False
    for cid, y in qs:
        cal = pyo.cal(cid)
        if not cal.min_year <= y <= cal.max_year:
            raise InvalidCase
    for cid, y in qs:
        cal = pyo.cal(cid)
        fam = "Hebrew" if cid.startswith("Hebrew") else cid
        slot = (fam, y & 1023)
        if slot in seen_slots and seen_slots[slot] != y:
            nt = True
        seen_slots[slot] = y
        exp = year_start_oracle(cid, y)
        got = year_start_query(cid, y)
        need(got == exp, f"year-start/{cid}", f"year {y} after history {qs[:8]}...: {got} != {exp}")
        if y < cal.max_year:
            exp_len = year_start_oracle(cid, y + 1) - exp
            need(cal.get_days_in_year(y) == exp_len, f"year-length/{cid}", f"year {y}: {cal.get_days_in_year(y)} != {exp_len}")
        # the month structure of the year (some calculators cache month lengths next to the year start)
        for m, mstart, mlen in month_table_oracle(cid, y):
            if mstart + mlen - 1 > cal._max_days or mstart < cal._min_days:
                continue
            got_len = cal.get_days_in_month(y, m)
            need(got_len == mlen, f"month-length/{cid}", f"year {y} month {m} after history {qs[:8]}...: {got_len} != {mlen}")
            got_start = _month_start_query(cid, y, m)
            need(got_start == mstart, f"month-start/{cid}", f"year {y} month {m} after history {qs[:8]}...: day number {got_start} != {mstart}")
            d = pyo.date_from_day(cid, mstart + mlen - 1)
            need((d.year, d.month, d.day) == (y, m, mlen), f"month-end/{cid}", f"day {mstart + mlen - 1} -> {(d.year, d.month, d.day)} != {(y, m, mlen)}")
    return CaseInfo(nt, "years")


def _k_zone_cache(c) -> CaseInfo:
    """History of instants through the caching wrapper; equals the wrapped zone and the independent reference."""
    zid, ts, fresh = c["zone"], c["ts"], c.get("fresh", False)
    if zid not in c06.ref_db("bundled").zones:
        raise InvalidCase
    for t in ts:
        if not Z.INST_MIN <= t <= Z.INST_MAX:
            raise InvalidCase
    z = Z.zone(zid)
    inner = getattr(z, "_time_zone", None)
    if inner is None:
        raise InvalidCase
    if fresh:
        from pyoda_time.time_zones._cached_date_time_zone import _CachedDateTimeZone

        z = _CachedDateTimeZone._for_zone(inner)
    ivs = c06.ref_intervals("bundled", zid)
    slots: dict[int, int] = {}
    nt = False
    for t in ts:
        period = (t // DAY) >> 5
        slot = period & 511
        if slot in slots and slots[slot] != period:
            nt = True
        slots[slot] = period
        got = Z.iv_tuple(z.get_zone_interval(Z.inst(t)))
        exp = Z.iv_tuple(inner.get_zone_interval(Z.inst(t)))
        need(got == exp, "caching-zone-vs-underlying", f"{zid} at {t} after {len(slots)} slots: {got} vs {exp}")
        need(got == c06.ref_lookup(ivs, t), "caching-zone-vs-file", f"{zid} at {t}: {got}")
    return CaseInfo(nt, "zone_cache")


def _k_provider(c) -> CaseInfo:
    """Provider lookups in any order: same zone object per id, equal to what a fresh cache over a fresh source gives."""
    from pyoda_time.time_zones import DateTimeZoneCache

    qs = c["queries"]
    prov = Z.provider()
    fresh = DateTimeZoneCache(c06.lib_source("bundled"))
    first: dict[str, object] = {}
    unknown = 0
    for zid in qs:
        a = prov.get_zone_or_none(zid)
        b = fresh.get_zone_or_none(zid)
        need((a is None) == (b is None), "provider/known-vs-unknown", f"{zid!r}")
        if a is None:
            unknown += 1
            continue
        need(a.id == zid == b.id, "provider/id", f"{zid!r}: {a.id} / {b.id}")
        if zid in prov.ids:
            need(prov[zid] is a and prov.get_zone_or_none(zid) is a, "provider/not-same-object", f"{zid!r}")
            need(fresh[zid] is b, "provider/fresh-not-same-object", f"{zid!r}")
        if zid in first:
            need(first[zid] is a or zid not in prov.ids, "provider/object-changed-with-history", f"{zid!r}")
        first[zid] = a
        for t in c.get("ts", [0]):
            if Z.INST_MIN <= t <= Z.INST_MAX:
                need(Z.iv_tuple(a.get_zone_interval(Z.inst(t))) == Z.iv_tuple(b.get_zone_interval(Z.inst(t))), "provider/history-dependent-zone", f"{zid!r} at {t}")
    return CaseInfo(len(set(qs)) < len(qs) or unknown > 0, "provider")


def _k_singletons(c) -> CaseInfo:
    from pyoda_time import CalendarSystem

    order = c["order"]
    objs = {}
    for cid in order:
        a = CalendarSystem.for_id(cid)
        need(a is CalendarSystem.for_id(cid), "calendar-singleton/for_id", cid)
        need(a.id == cid, "calendar-singleton/id")
        if cid in objs:
            need(objs[cid] is a, "calendar-singleton/history", cid)
        objs[cid] = a
    named = {"ISO": "iso", "Gregorian": "gregorian", "Julian": "julian", "Coptic": "coptic", "Badi": "badi", "Hebrew Civil": "hebrew_civil", "Hebrew Scriptural": "hebrew_scriptural", "Persian Simple": "persian_simple", "Persian Arithmetic": "persian_arithmetic", "Persian Algorithmic": "persian_astronomical", "Um Al Qura": "um_al_qura", "Hijri Astronomical-Base16": "islamic_bcl"}
    for cid, attr in named.items():
        if cid in order:
            need(getattr(CalendarSystem, attr) is objs[cid], "calendar-singleton/static-property", cid)
    # the other lazily created shared objects: the UTC zone, the tzdb provider and its source, fixed zones by offset
    from pyoda_time import DateTimeZone, DateTimeZoneProviders, Offset
    from pyoda_time.time_zones._tzdb_date_time_zone_source import TzdbDateTimeZoneSource

    u = DateTimeZone.utc
    need(u is DateTimeZone.utc and u.id == "UTC" and u == DateTimeZone.for_offset(Offset.zero), "singleton/utc")
    prov = DateTimeZoneProviders.tzdb
    need(prov is DateTimeZoneProviders.tzdb, "singleton/tzdb-provider")
    need(TzdbDateTimeZoneSource.default is TzdbDateTimeZoneSource.default, "singleton/tzdb-source")
    for k, cid in enumerate(order[:3]):
        secs = (len(cid) * 900 * (k + 1)) % 64800
        a, b = DateTimeZone.for_offset(Offset.from_seconds(secs)), DateTimeZone.for_offset(Offset.from_seconds(secs))
        need(a == b and a.id == b.id and a.get_utc_offset(Z.inst(0)).seconds == secs, "singleton/for_offset", f"{secs}")
    return CaseInfo(len(order) > len(set(order)), "singletons")


def ro_culture(cname: str):
    """Read-only CultureInfo objects are the ones whose format info goes through the shared 500-entry _Cache."""
    from pyoda_time._compatibility._culture_info import CultureInfo

    return CultureInfo.read_only(CultureInfo(cname)) if cname else CultureInfo.invariant_culture


def format_answers(queries: list, ro: bool = False) -> list:
    out = []
    for t, pattern, cname, vj in queries:
        p = T.pattern_class(t).create(pattern, ro_culture(cname)) if ro else T.create(t, pattern, cname)
        v = T.make_value(t, vj)
        text = p.format(v)
        r = p.parse(text)
        out.append((text, r.success, T.value_key(t, r.value) if r.success else None))
    return out


def _k_patterns(c) -> CaseInfo:
    """Pattern / format-info lookups give the same answers whatever was asked before (cache eviction included)."""
    from pyoda_time.globalization._pyoda_format_info import _PyodaFormatInfo

    qs = c["queries"]
    for t, pattern, cname, vj in qs:
        if t not in T.TYPES or cname not in T.culture_names() or not T.value_in_domain(t, vj):
            raise InvalidCase
    filler = c.get("filler", [])
    ro = bool(c.get("ro", False))
    a0 = format_answers(qs, False)
    a1 = format_answers(qs, ro)
    need(a0 == a1, "pattern-answers-differ-for-read-only-culture")
    # push the caches through an eviction cycle
    for cname in filler:
        if cname in T.culture_names():
            cu = ro_culture(cname) if ro else T.culture(cname)
            T.pattern_class("date").create("D", cu).format(T.make_value("date", {"cal": "ISO", "n": 19000}))
    a2 = format_answers(list(reversed(qs)), ro)[::-1]
    need(a1 == a2, "pattern-answers-depend-on-history", f"{[q[:3] for q in qs][:4]}: {a1[:2]} vs {a2[:2]}")
    _PyodaFormatInfo._clear_cache()
    a3 = format_answers(qs, ro)
    need(a1 == a3, "pattern-answers-depend-on-cache-state", f"{[q[:3] for q in qs][:4]}")
    return CaseInfo(len(filler) > 50, "patterns:ro" if ro else "patterns")


def _k_cache_unit(c) -> CaseInfo:
    """The shared cache class itself: get_or_add(k) is factory(k) whatever was asked before; size is bounded."""
    from pyoda_time.utility._cache import _Cache

    size, keys = c["size"], c["keys"]
    if not 1 <= size <= 8 or not keys:
        raise InvalidCase
    calls: list = []

    def factory(k):
        calls.append(k)
        return ("value", k)

    cache = _Cache(size, factory)
    evicted_then_asked = False
    present: list = []
    for k in keys:
        got = cache.get_or_add(k)
        need(got == ("value", k), "cache/wrong-value", f"get_or_add({k!r}) -> {got!r} after {keys}")
        if k not in present:
            present.append(k)
            if len(present) > size:
                present.pop(0)
        need(cache.count() <= size, "cache/size-exceeded", f"{cache.count()} > {size}")
        need(sorted(cache.keys(), key=repr) == sorted(present, key=repr), "cache/keys", f"{cache.keys()} vs least-recently-added model {present}")
    if len(set(keys)) > size:
        evicted_then_asked = True
    cache.clear()
    need(cache.count() == 0 and cache.get_or_add(keys[0]) == ("value", keys[0]), "cache/after-clear")
    return CaseInfo(evicted_then_asked, "cache_unit")


# --- schedules -----------------------------------------------------------------------------------------------------


def _k_sched_provider(c) -> CaseInfo:
    """2-4 threads look up ids in a cold DateTimeZoneCache under a generated schedule."""
    from pyoda_time.time_zones import DateTimeZoneCache

    threads, schedule = c["threads"], c["schedule"]
    if not 2 <= len(threads) <= 4 or any(len(t) > 4 for t in threads):
        raise InvalidCase
    import pyoda_time.time_zones._date_time_zone_cache as mod

    if not isinstance(getattr(mod, "threading", None), sched.ThreadingShim) and hasattr(mod, "threading"):
        mod.threading = sched.ThreadingShim()  # type: ignore[attr-defined]
    cache = DateTimeZoneCache(c06.lib_source("bundled"))
    ids = set(cache.ids)
    for t in threads:
        for zid in t:
            if zid not in ids:
                raise InvalidCase
    results: list[list] = [[] for _ in threads]

    def worker(i):
        def run():
            for zid in threads[i]:
                results[i].append((zid, cache[zid]))

        return run

    try:
        r = sched.run_schedule([worker(i) for i in range(len(threads))], schedule, ("time_zones/_date_time_zone_cache.py",))
    except sched.Deadlock as e:
        raise Mismatch("sched-provider/deadlock", str(e)) from None
    for w in r.workers:
        if w.error is not None:
            raise w.error
    seen: dict[str, object] = {}
    for res in results:
        for zid, z in res:
            need(z.id == zid, "sched-provider/id")
            if zid in seen:
                need(seen[zid] is z, "sched-provider/different-objects-for-one-id", f"{zid}: two callers hold different zone objects (schedule trace {r.trace[:40]})")
            seen[zid] = z
    for zid, z in seen.items():
        need(cache[zid] is z, "sched-provider/later-caller-gets-another-object", f"{zid}")
    shared = len({z for t in threads for z in t}) < sum(len(t) for t in threads)
    return CaseInfo(r.preemptions >= 1 and shared, f"sched_provider:{'preempted' if r.preemptions else 'serial'}")


def _k_sched_zone(c) -> CaseInfo:
    """Threads query a cold caching zone wrapper at slot-aliasing instants under a generated schedule."""
    from pyoda_time.time_zones._cached_date_time_zone import _CachedDateTimeZone

    zid, threads, schedule = c["zone"], c["threads"], c["schedule"]
    if zid not in c06.ref_db("bundled").zones or not 2 <= len(threads) <= 4 or any(len(t) > 4 for t in threads):
        raise InvalidCase
    inner = getattr(Z.zone(zid), "_time_zone", None)
    if inner is None or any(not Z.INST_MIN <= t <= Z.INST_MAX for th in threads for t in th):
        raise InvalidCase
    z = _CachedDateTimeZone._for_zone(inner)
    results: list[list] = [[] for _ in threads]

    def worker(i):
        def run():
            for t in threads[i]:
                results[i].append((t, Z.iv_tuple(z.get_zone_interval(Z.inst(t)))))

        return run

    r = sched.run_schedule([worker(i) for i in range(len(threads))], schedule, ("time_zones/_caching_zone_interval_map.py", "time_zones/_cached_date_time_zone.py"))
    for w in r.workers:
        if w.error is not None:
            raise w.error
    ivs = c06.ref_intervals("bundled", zid)
    for res in results:
        for t, got in res:
            need(got == c06.ref_lookup(ivs, t), "sched-zone/wrong-interval", f"{zid} at {t}: {got} (schedule trace {r.trace[:40]})")
    return CaseInfo(r.preemptions >= 1, "sched_zone")


def _k_sched_years(c) -> CaseInfo:
    """Threads query year starts on a cold calculator at slot-aliasing years under a generated schedule."""
    cid, threads, schedule = c["cal"], c["threads"], c["schedule"]
    if not 2 <= len(threads) <= 4 or any(len(t) > 5 for t in threads):
        raise InvalidCase
    cal = pyo.cal(cid)
    if any(not cal.min_year <= y <= cal.max_year for th in threads for y in th):
        raise InvalidCase
    calc = cal._year_month_day_calculator
    # a cold year cache for this run
    from pyoda_time.calendars._year_start_cache_entry import _YearStartCacheEntry

    for attr in list(vars(calc)):
        if attr.endswith("__year_cache"):
            setattr(calc, attr, _YearStartCacheEntry._create_cache())
    results: list[list] = [[] for _ in threads]

    def worker(i):
        def run():
            for y in threads[i]:
                results[i].append((y, calc._get_start_of_year_in_days(y)))

        return run

    r = sched.run_schedule([worker(i) for i in range(len(threads))], schedule, ("calendars/_year_month_day_calculator.py", "calendars/_year_start_cache_entry.py", "calendars/_hebrew_scriptural_calculator.py"))
    for w in r.workers:
        if w.error is not None:
            raise w.error
    for res in results:
        for y, got in res:
            need(got == year_start_oracle(cid, y), f"sched-years/{cid}", f"year {y}: {got} != {year_start_oracle(cid, y)} (trace {r.trace[:40]})")
    return CaseInfo(r.preemptions >= 1, "sched_years")


def _k_stress(c) -> CaseInfo:
    """16 real threads against cold shared objects; deterministic oracles (identity, reference values)."""
    from pyoda_time._compatibility._culture_info import CultureInfo
    from pyoda_time.time_zones import DateTimeZoneCache
    from pyoda_time.time_zones._cached_date_time_zone import _CachedDateTimeZone

    ids = c["ids"]
    cache = DateTimeZoneCache(c06.lib_source("bundled"))
    inner = getattr(Z.zone("Europe/London"), "_time_zone")
    cz = _CachedDateTimeZone._for_zone(inner)
    ivs = c06.ref_intervals("bundled", "Europe/London")
    got: list[list] = [[] for _ in range(16)]
    errs: list = []
    cultures_seen: list = [None] * 16
    old = sys.getswitchinterval()
    sys.setswitchinterval(1e-6)
    try:
        def body(i):
            try:
                if i == 0 and "fr-FR" in T.culture_names():
                    CultureInfo.current_culture = T.culture("fr-FR")
                for k, zid in enumerate(ids):
                    got[i].append((zid, cache[zid]))
                    t = Z.year_start_ns(1900 + (i * 37 + k * 11) % 200) + (k % 3 - 1) * 512 * PERIOD
                    if Z.INST_MIN <= t <= Z.INST_MAX:
                        iv = Z.iv_tuple(cz.get_zone_interval(Z.inst(t)))
                        if iv != c06.ref_lookup(ivs, t):
                            errs.append(("zone", t, iv))
                    y = 1000 + ((i + k) % 5) * 1024 + k % 7
                    for cid in ("Julian", "Hebrew Civil", "Hijri Civil-Base15"):
                        cal = pyo.cal(cid)
                        if cal.min_year <= y <= cal.max_year and year_start_query(cid, y) != year_start_oracle(cid, y):
                            errs.append(("year", cid, y))
                cultures_seen[i] = CultureInfo.current_culture.name
            except BaseException as e:  # noqa: BLE001
                errs.append(("exc", repr(e)))

        ts = [threading.Thread(target=body, args=(i,)) for i in range(16)]
        for t in ts:
            t.start()
        for t in ts:
            t.join(120)
    finally:
        sys.setswitchinterval(old)
    need(not errs, "stress/wrong-answer", f"{errs[:3]}")
    objs: dict[str, object] = {}
    for res in got:
        for zid, z in res:
            if zid in objs:
                need(objs[zid] is z, "stress/different-objects-for-one-id", zid)
            objs[zid] = z
    need(all(n == "" for n in cultures_seen[1:]), "stress/current-culture-leaked-between-threads", f"{cultures_seen}")
    return CaseInfo(True, "stress")


# ---------------------------------------------------------------------------------------------------------------


def task_hist(ctx: Ctx, shard: int, n: int) -> None:
    s = sub_seed(ctx.seed, "c13", shard)
    zone_ids = [z for z, v in c06.ref_db("bundled").zones.items() if v.kind == "precalculated"]
    zone_ids.sort()
    all_ids = list(Z.all_ids())
    names = list(T.culture_names())

    def yq(x):
        cid, y0, ks = x
        cal = pyo.cal(cid)
        out = []
        for k, d in ks:
            y = y0 + k * 1024 + d
            if cal.min_year <= y <= cal.max_year:
                out.append([cid, y])
        return out

    year_hist = st.lists(
        st.tuples(st.sampled_from(pyo.cal_ids()), st.one_of(st.integers(-9998, 9999), st.builds(lambda k, d: k * 1024 + d, st.integers(0, 9), st.integers(-2, 1))), st.lists(st.tuples(st.integers(-3, 3), st.integers(-1, 1)), min_size=2, max_size=6)).map(yq),
        min_size=1,
        max_size=5,
    ).map(lambda ll: [q for l_ in ll for q in l_])

    def zq(x):
        t0, ks = x
        return [t for t in (t0 + k * 512 * PERIOD + d * DAY for k, d in ks) if Z.INST_MIN <= t <= Z.INST_MAX]

    zone_hist = st.tuples(ints_biased(Z.year_start_ns(1800), Z.year_start_ns(2300), (DAY, PERIOD)), st.lists(st.tuples(st.integers(-4, 4), st.integers(-40, 40)), min_size=2, max_size=10)).map(zq)
    unknown = st.sampled_from(["Nowhere/None", "UTC+25", "utc", "Europe/Londonx", "UTC+05:3", ""])
    fixed = st.sampled_from(["UTC", "UTC+05:30", "UTC-11:59:59", "UTC+18", "UTC+01", "UTC+00:00:01"])
    prov_hist = st.lists(st.one_of(st.sampled_from(all_ids), st.sampled_from(all_ids), fixed, unknown), min_size=2, max_size=12)
    pat_queries = st.lists(
        st.one_of(*[st.tuples(st.just(t), st.sampled_from(PAT[t]), st.sampled_from(names), T.st_value(t, ("ISO",))) for t in ("date", "time", "datetime", "offset", "duration")]).map(list),
        min_size=1,
        max_size=4,
    )

    def body(yh, zid_ix, zh, fresh, ph, ts, order, pq, fill_from, fill_n):
        if yh:
            ctx.case("years", {"queries": yh})
        if zh:
            ctx.case("zone_cache", {"zone": zone_ids[zid_ix % len(zone_ids)], "ts": zh, "fresh": fresh})
        ctx.case("provider", {"queries": ph, "ts": ts})
        ctx.case("singletons", {"order": order})
        filler = [names[(fill_from + i) % len(names)] for i in range(fill_n)]
        ctx.case("patterns", {"queries": pq, "filler": filler, "ro": fresh})
        ctx.case("cache_unit", {"size": 1 + fill_from % 4, "keys": [k % 7 for k in zh] or [1]})

    run_hypothesis(
        body,
        dict(
            yh=year_hist,
            zid_ix=st.integers(0, 10**6),
            zh=zone_hist,
            fresh=st.booleans(),
            ph=prov_hist,
            ts=st.lists(ints_biased(Z.INST_MIN, Z.INST_MAX, (DAY,)), min_size=1, max_size=2),
            order=st.lists(st.sampled_from(pyo.cal_ids()), min_size=1, max_size=8),
            pq=pat_queries,
            fill_from=st.integers(0, 2000),
            fill_n=st.sampled_from([0, 0, 3, 20, 120]),
        ),
        n,
        s,
    )


PAT = {
    "date": ["D", "d", "dddd, d MMMM yyyy", "uuuu-MM-dd", "MMM d"],
    "time": ["T", "t", "h:mm:ss tt", "HH:mm:ss.FFF"],
    "datetime": ["F", "G", "uuuu-MM-dd'T'HH:mm", "dddd d MMMM yyyy HH:mm"],
    "offset": ["g", "+HH:mm"],
    "duration": ["-D:hh:mm:ss.FFFFFFFFF", "-H:mm:ss"],
}


def task_evict(ctx: Ctx, seed: int, part: int = -1) -> None:
    """Cycle through every available culture (> 500 with ICU) and back: pattern answers must not change."""
    names = list(T.culture_names())
    qs = [["date", "D", n_, {"cal": "ISO", "n": 19782}] for n_ in names[:: max(1, len(names) // 40)]]
    qs += [["time", "T", n_, {"ns": 45296000000000}] for n_ in names[5 :: max(1, len(names) // 40)]]
    cases = [
        {"queries": qs[:30], "filler": names},
        {"queries": qs[30:60], "filler": names[::-1]},
        {"queries": qs[:30], "filler": names, "ro": True},
        {"queries": qs[30:60], "filler": names[::-1], "ro": True},
    ]
    for i, case in enumerate(cases):
        if part in (-1, i):
            ctx.case("patterns", case)


def task_sched(ctx: Ctx, shard: int, n: int) -> None:
    s = sub_seed(ctx.seed, "c13s", shard)
    all_ids = list(Z.all_ids())
    zone_ids = sorted(z for z, v in c06.ref_db("bundled").zones.items() if v.tail is not None)
    hot = [all_ids[sub_seed(ctx.seed, "hot", shard, k) % len(all_ids)] for k in range(4)] + ["Europe/London", "GB"]
    sched_st = st.lists(st.integers(0, 5), min_size=1, max_size=120)

    def body(pthreads, schedule, zix, t0, zks, cid, y0, yks):
        ctx.case("sched_provider", {"threads": pthreads, "schedule": schedule})
        zthreads = [[t for t in (t0 + k * 512 * PERIOD + d * DAY for k, d in th) if Z.INST_MIN <= t <= Z.INST_MAX] for th in zks]
        if all(zthreads):
            ctx.case("sched_zone", {"zone": zone_ids[zix % len(zone_ids)], "threads": zthreads, "schedule": schedule})
        cal = pyo.cal(cid)
        ythreads = [[y for y in (y0 + k * 1024 + d for k, d in th) if cal.min_year <= y <= cal.max_year] for th in yks]
        if all(ythreads):
            ctx.case("sched_years", {"cal": cid, "threads": ythreads, "schedule": schedule})

    run_hypothesis(
        body,
        dict(
            pthreads=st.lists(st.lists(st.sampled_from(hot), min_size=1, max_size=3), min_size=2, max_size=3),
            schedule=sched_st,
            zix=st.integers(0, 10**6),
            t0=ints_biased(Z.year_start_ns(1850), Z.year_start_ns(2200), (DAY, PERIOD)),
            zks=st.lists(st.lists(st.tuples(st.integers(-2, 2), st.integers(-33, 33)), min_size=1, max_size=3), min_size=2, max_size=3),
            cid=st.sampled_from(["Julian", "Coptic", "Hebrew Civil", "Hebrew Scriptural", "Hijri Civil-Base16", "Persian Simple", "Gregorian"]),
            y0=st.integers(-2000, 6000),
            yks=st.lists(st.lists(st.tuples(st.integers(-2, 2), st.integers(-1, 1)), min_size=1, max_size=4), min_size=2, max_size=3),
        ),
        n,
        s,
    )


def task_stress(ctx: Ctx, rounds: int) -> None:
    all_ids = list(Z.all_ids())
    for r in range(rounds):
        ids = [all_ids[sub_seed(ctx.seed, "st", r, k) % len(all_ids)] for k in range(12)]
        ctx.case("stress", {"ids": ids})


def tasks(tier: str, seed: int) -> list[Task]:
    thorough = tier == "thorough"
    out = [Task("task_hist", {"shard": i, "n": 220 if not thorough else 3000}, f"hist-{i}") for i in range(8)]
    out += [Task("task_sched", {"shard": i, "n": 200 if not thorough else 2000}, f"sched-{i}") for i in range(6)]
    out = [Task("task_evict", {"seed": seed, "part": i}, f"evict-{i}") for i in range(4)] + out
    out.append(Task("task_stress", {"rounds": 2 if not thorough else 30}, "stress"))
    return out
