"""C08 - parsing never raises; pattern creation fails only with InvalidPatternError.

Two generated spaces: (a) pattern texts (grammar output, mutations, junk) x 7 pattern classes x cultures;
(b) input texts for every created pattern: formatted values and single/field-aware mutations of them.
Oracle: create -> pattern | InvalidPatternError ; parse -> ParseResult whose success carries a valid value
(re-validated through the type's public constructor, and formattable) and whose failure carries an
UnparsableValueError available on request.
"""

from __future__ import annotations

from hypothesis import strategies as st

from harness import text as T
from harness.core import CaseInfo, Ctx, InvalidCase, Mismatch, Task, sub_seed
from harness.gen import run_hypothesis

PROPERTY = "C08"
LEVEL = "exploration"
RULE = (
    "Hypothesis-generated (type, pattern text, culture) over 7 pattern classes: grammar output, single and double "
    "edits (drop/insert/duplicate, unbalanced quote, trailing escape, %, <>), embedded ld<>/lt<> patterns incl. ones "
    "with a loose field of the same kind (contradictory digit runs swept), standard letters and unstructured "
    "strings; for each created pattern, input texts = format(value) and mutations (delete, transpose, replace by "
    "digit/sign/letter/NUL/non-ASCII digit/combining mark, out-of-range digit runs, 40-digit runs, empty, whitespace, "
    "10 kB). Non-trivial: a malformed pattern, or a text that is not the pristine formatted text. Distinct = case hash."
)
ASSUMPTIONS = ["a formatted seed text that cannot be produced (format raises) is counted, not asserted, here (C07 decides formatting)"]

PARSE_PANEL = {
    "date": ["uuuu'-'MM'-'dd", "d", "D", "dddd, d MMMM yyyy g", "yy/M/d", "uuuu-MM-dd c", "MMM d yyyy", "dd MM yyyy gg", "uuuu'-'MM'-'dd '('c')'", "dddd c MMMM yyyy", 'uuuu"x"MM'],
    "time": ["HH':'mm':'ss;FFFFFFFFF", "t", "T", "h:mm tt", "HH:mm:ss.fffffffff", "H:m:s", "hh tt", "HH", "ss.FFF", "h t"],
    "datetime": ["uuuu'-'MM'-'dd'T'HH':'mm':'ss;FFFFFFFFF", "f", "F", "g", "G", "o", "r", "s", "dddd d MMMM yyyy h:mm tt", "uuuu-MM-dd'T'HH:mm:ss.fffffff", "uuuu-MM-dd'T'HH:mm:ss.fffffffff '('c')'", "yy-M-d H"],
    "instant": ["uuuu'-'MM'-'dd'T'HH':'mm':'ss;FFFFFFFFF'Z'", "g", "uuuu-MM-dd HH:mm", "dd/MM/yyyy HH:mm:ss.fff"],
    "offset": ["g", "G", "f", "m", "s", "l", "+HH:mm", "-HH", "HH", "+HH:mm:ss", "+H"],
    "duration": ["-D:hh:mm:ss.FFFFFFFFF", "-H:mm:ss.FFFFFFFFF", "o", "j", "M:ss", "S.fff", "+D 'days' h", "-HH:mm"],
    "annual": ["MM'-'dd", "G", "MMMM d", "d MMM", "M/d"],
}
CULTURES_FIXED = ["", "en-US", "fr-FR", "de-DE", "ar-SA", "he-IL", "fa-IR", "th-TH", "ja-JP", "ru-RU", "tr-TR", "dav", "vi-VN", "hi-IN", "el-GR"]


import re

_REPEATED = re.compile(r"([yuMdHhms])\1*[^A-Za-z<>]+(?:.*[^A-Za-z])?\1")  # the same numeric field letter twice, apart
_EMBEDDED_STD = re.compile(r"<%?[A-Za-z]>")  # an embedded standard pattern (may expand to a text-month pattern)


def need(cond: bool, sig: str, msg: str = "") -> None:
    if not cond:
        raise Mismatch(sig, msg)


def eval_case(kind: str, c: dict) -> CaseInfo:
    return globals()["_k_" + kind](c)


def culture_ok(name: str) -> bool:
    return name in T.culture_names()


def try_create(t: str, pattern: str, cname: str):
    """Returns (pattern or None, created?). Anything but InvalidPatternError propagates (= violation)."""
    from pyoda_time.text import InvalidPatternError

    try:
        return T.create(t, pattern, cname)
    except InvalidPatternError:
        return None


def _k_create(c) -> CaseInfo:
    t, pattern, cname = c["type"], c["pattern"], c["culture"]
    if t not in T.TYPES or not culture_ok(cname) or not isinstance(pattern, str):
        raise InvalidCase
    p = try_create(t, pattern, cname)
    if p is not None and hasattr(p, "pattern_text"):
        need(p.pattern_text == pattern, "create/pattern_text", f"{pattern!r} -> {p.pattern_text!r}")
    return CaseInfo(p is None, f"create:{'ok' if p is not None else 'invalid'}")


def check_parse(t: str, p, text: str, what: str) -> bool:
    """Runs p.parse(text) and checks the result contract. Returns success."""
    from pyoda_time.text import ParseResult, UnparsableValueError

    r = p.parse(text)
    need(isinstance(r, ParseResult), f"{what}/result-type", f"{type(r).__name__}")
    need(isinstance(r.success, bool), f"{what}/success-type")
    if r.success:
        v = r.value
        err = T.validity_error(t, v)
        need(err is None, f"{what}/invalid-value", f"text {text[:60]!r} -> {T.describe(t, v) if err and 'type' not in err else '?'}: {err}")
        ok, v2 = r.try_get_value(None)
        need(ok is True and v2 is v and r.get_value_or_throw() is v, f"{what}/try_get_value")
        out = p.format(v)
        need(isinstance(out, str), f"{what}/format-of-parsed-value")
        return True
    e = r.exception
    need(isinstance(e, UnparsableValueError), f"{what}/exception-type", f"{type(e).__name__}: {e}")
    try:
        r.value
    except UnparsableValueError:
        pass
    else:
        raise Mismatch(f"{what}/value-of-failure-did-not-raise", text[:60])
    try:
        r.get_value_or_throw()
    except UnparsableValueError:
        pass
    else:
        raise Mismatch(f"{what}/get_value_or_throw-did-not-raise", text[:60])
    sentinel = object()
    ok, fb = r.try_get_value(sentinel)
    need(ok is False and fb is sentinel, f"{what}/try_get_value-on-failure")
    return False


def mutate_text(text: str, op: int, pos: int, arg: int) -> str:
    repl = ["0", "9", "5", "-", "+", "a", "Z", "\x00", "٣", "３", "́", " ", ":", "/", ".", "𝟙", "é"]
    n = len(text)
    pos = pos % (n + 1)
    if op == 0:
        return text[:pos] + text[pos + 1 :]
    if op == 1 and n >= 2:
        q = pos % (n - 1)
        return text[:q] + text[q + 1] + text[q] + text[q + 2 :]
    if op == 2:
        return text[:pos] + repl[arg % len(repl)] + text[pos + 1 :]
    if op == 3:
        return text[:pos] + repl[arg % len(repl)] + text[pos:]
    if op in (4, 5, 6):
        # field-aware: replace the digit run at/after pos
        i = pos
        while i < n and not text[i].isdigit():
            i += 1
        if i >= n:
            i = 0
            while i < n and not text[i].isdigit():
                i += 1
        if i < n:
            j = i
            while j < n and text[j].isdigit():
                j += 1
            width = j - i
            if op == 4:
                big = ["99", "60", "24", "25", "13", "32", "00", "19", "9999", "0000", "31", "30", "29", "61", "99999"][arg % 15]
                new = big.rjust(width, "9")[-max(width, len(big)) :] if width >= len(big) else big
            elif op == 5:
                new = "9" * (width + (arg % 39) + 1)
            else:
                new = ""
            return text[:i] + new + text[j:]
        return text + "7"
    if op == 7:
        return ""
    if op == 8:
        return " " * (arg % 5) + text + " " * (1 + arg % 3)
    if op == 9:
        return text * (2 + arg % 3)
    if op == 10:
        return (text + "9") * (10240 // (len(text) + 1) + 1)
    if op == 11:
        return text[:pos]
    if op == 15:
        # hour 24 (only legal as 24:00:00 = start of the next day)
        for a, b in (("T00", "T24"), (" 00:", " 24:"), ("00:00", "24:00"), ("12:00", "24:00"), ("00", "24")):
            if a in text:
                return text.replace(a, b, 1)
        return "24" + text
    return text.swapcase() if op == 12 else text.replace("-", "−") if op == 13 else text + "\x00"


def _k_parse(c) -> CaseInfo:
    t, pattern, cname, vj = c["type"], c["pattern"], c["culture"], c["value"]
    if t not in T.TYPES or not culture_ok(cname) or not T.value_in_domain(t, vj) or not isinstance(pattern, str):
        raise InvalidCase
    tmpl = c.get("template")
    if tmpl is not None and not T.value_in_domain(t, tmpl):
        raise InvalidCase
    if tmpl is not None and t in ("date", "datetime") and (len(pattern) == 1 or "MMM" in pattern or _EMBEDDED_STD.search(pattern)):
        # text-month fields are only paired with months 1-12 (the culture tables have 12/13 entries; see C07)
        if T.make_value(t, tmpl).month > 12:
            raise InvalidCase
    p = try_create(t, pattern, cname)
    if p is None:
        return CaseInfo(False, "parse:pattern-invalid")
    if tmpl is not None and hasattr(p, "with_template_value"):
        p = p.with_template_value(T.make_value(t, tmpl))
    v = T.make_value(t, vj)
    try:
        seed_text = p.format(v)
    except Exception:  # noqa: BLE001  (formatting is C07's subject; see ASSUMPTIONS)
        seed_text = c.get("fallback", "2000-01-01T00:00:00")
    nontrivial = False
    texts = [seed_text]
    for op, pos, arg in c.get("muts", []):
        texts.append(mutate_text(seed_text, op, pos, arg))
    texts += c.get("extra", [])
    label = "parse:all-fail"
    for i, text in enumerate(texts):
        ok = check_parse(t, p, text, f"parse[{t}]")
        if i > 0 and text != seed_text:
            nontrivial = True
        if ok and i > 0:
            label = "parse:mutant-accepted"
        elif ok and label == "parse:all-fail":
            label = "parse:seed-only"
    return CaseInfo(nontrivial, label)


# ---------------------------------------------------------------------------------------------------------------


def cultures_for(seed: int, shard: int) -> list[str]:
    names = T.culture_names()
    fixed = [c for c in CULTURES_FIXED if c in names]
    extra = [names[sub_seed(seed, "c08c", shard, k) % len(names)] for k in range(10)]
    return fixed + extra


def task_hyp(ctx: Ctx, shard: int, n: int) -> None:
    s = sub_seed(ctx.seed, "c08", shard)
    cults = cultures_for(ctx.seed, shard)
    t = T.TYPES[shard % len(T.TYPES)]
    muts = st.lists(st.tuples(st.integers(0, 15), st.integers(0, 60), st.integers(0, 100)), min_size=3, max_size=8)
    junk = st.lists(st.one_of(st.text(max_size=12), st.sampled_from(["", " ", "\x00", "-", "+", "9" * 40, "٣٣٣٣-٠١-٠١", "−05:00", "T", "Z", "24:00:00", "2000-02-30", "-9999-01-01", "-9999-01-31", "99999-01-01", "12:60", "0000-00-00", "13:00 PM", "19", "+18:00:01", "+19", "-18:01"])), max_size=3)

    def body(pat_any, pat_valid, panel_ix, cname, v, tmpl, m, extra, use_tmpl):
        ctx.case("create", {"type": t, "pattern": pat_any, "culture": cname})
        panel = PARSE_PANEL[t]
        if t in ("datetime", "instant") and panel_ix % 3 == 0:
            # the last / first representable day at midnight (hour 24 and similar roll-overs leave the range)
            if t == "instant":
                v = {"i": (2932896 if panel_ix % 2 else -4371222) * T.DAY}
            else:
                from harness import pyo as _pyo

                cc = _pyo.cal(v["cal"])
                v = {"cal": v["cal"], "n": cc._max_days if panel_ix % 2 else cc._min_days, "ns": 0}
        for pattern in (panel[panel_ix % len(panel)], pat_valid, pat_any):
            mm = [list(x) for x in m]
            if "<" in pattern or _REPEATED.search(pattern):
                # a field stated twice (loose next to an embedded pattern, or repeated) is an invalid pattern; should one
                # be accepted, the two copies can contradict each other: sweep out-of-step values over every digit run
                mm += [[4, pos, arg] for pos in (0, 3, 5, 8, 11, 14, 17, 20) for arg in (4, 5, 10, 11, 12)]
            case = {"type": t, "pattern": pattern, "culture": cname, "value": v, "muts": mm, "extra": extra}
            if use_tmpl:
                case["template"] = tmpl
            ctx.case("parse", case)

    run_hypothesis(
        body,
        dict(
            pat_any=T.st_any_pattern(t),
            pat_valid=T.st_valid_pattern(t),
            panel_ix=st.integers(0, 100),
            cname=st.sampled_from(cults),
            v=T.st_value(t),
            tmpl=T.st_value(t),
            m=muts,
            extra=junk,
            use_tmpl=st.booleans(),
        ),
        n,
        s,
    )


# --- coverage-guided campaign (atheris / libFuzzer) --------------------------------------------------------------------


from functools import lru_cache


@lru_cache(maxsize=None)
def fuzz_panel() -> list[tuple[str, str, str]]:
    """The fixed (type, pattern, culture) panel the fuzz target indexes with its first byte (<= 0xEF entries)."""
    names = T.culture_names()
    cults = [c for c in ("", "en-US", "fr-FR") if c in names]
    out = [(t, p, cn) for t in T.TYPES for p in PARSE_PANEL[t] for cn in cults if try_create(t, p, cn) is not None]
    return out[:0xF0]


FUZZ_VALUES = {
    "date": {"cal": "ISO", "n": 19782}, "time": {"ns": 45296789012345}, "datetime": {"cal": "ISO", "n": 19782, "ns": 45296789012345},
    "instant": {"i": 1709251200123456789}, "offset": {"s": 19800}, "duration": {"ns": 93784005006007}, "annual": {"m": 2, "d": 29},
}  # fmt: skip


def fuzz_pattern_mode(t: str, pattern: str) -> bool:
    """Pattern text from the fuzzer: creation raises nothing but InvalidPatternError; a created pattern formats a
    fixed value and parses that text (and the raw pattern text itself) without raising."""
    p = try_create(t, pattern, "")
    if p is None:
        return False
    try:
        text = p.format(T.make_value(t, FUZZ_VALUES[t]))
    except Exception:  # noqa: BLE001  (formatting is C07's subject)
        text = "2000-01-01T00:00:00"
    check_parse(t, p, text, f"parse[{t}]")
    check_parse(t, p, pattern, f"parse[{t}]")
    return True


def _k_fuzz(c) -> CaseInfo:
    """Replay form of a fuzzer input: {'hex': ...} with the layout described in fuzz/c08_fuzz.py."""
    try:
        data = bytes.fromhex(c["hex"][: len(c["hex"]) // 2 * 2])
    except (ValueError, TypeError, KeyError):
        raise InvalidCase from None
    if not data:
        raise InvalidCase
    text = data[1:].decode("utf-8", "replace")
    if data[0] >= 0xF0:
        t = T.TYPES[(data[0] & 7) % len(T.TYPES)]
        made = fuzz_pattern_mode(t, text)
        return CaseInfo(True, f"fuzz:pattern:{'created' if made else 'invalid'}")
    panel = fuzz_panel()
    t, pat, cn = panel[data[0] % len(panel)]
    ok = check_parse(t, T.create(t, pat, cn), text, "fuzz")
    return CaseInfo(True, f"fuzz:text:{'accepted' if ok else 'rejected'}")


def task_atheris(ctx: Ctx, shard: int, runs: int) -> None:
    """libFuzzer campaign over (panel pattern, text) and over pattern texts; fixed -seed / -runs, fresh corpus of the
    formatted texts of one value per panel entry. Saved findings are re-evaluated through the `fuzz` kind."""
    import glob
    import json
    import os
    import shutil
    import subprocess
    import sys
    import tempfile

    from harness import bootstrap

    try:
        import atheris  # noqa: F401
    except Exception:  # noqa: BLE001
        ctx.label("atheris:unavailable")
        return
    work = tempfile.mkdtemp(prefix=f"c08-atheris-{shard}-")
    try:
        corpus, out = os.path.join(work, "corpus"), os.path.join(work, "out")
        os.makedirs(corpus)
        os.makedirs(out)
        panel = fuzz_panel()
        for ix, (t, pat, cn) in enumerate(panel):
            if ix % 2 == shard % 2 or len(panel) < 100:
                try:
                    text = T.create(t, pat, cn).format(T.make_value(t, FUZZ_VALUES[t]))
                except Exception:  # noqa: BLE001
                    continue
                with open(os.path.join(corpus, f"p{ix}"), "wb") as fh:
                    fh.write(bytes([ix]) + text.encode("utf-8"))
        for k, t in enumerate(T.TYPES):
            for j, pat in enumerate(PARSE_PANEL[t][:4]):
                with open(os.path.join(corpus, f"q{k}-{j}"), "wb") as fh:
                    fh.write(bytes([0xF0 | k]) + pat.encode("utf-8"))
        seed = 1 + sub_seed(ctx.seed, "c08-atheris", shard) % (2**31 - 2)
        cmd = [sys.executable, os.path.join(bootstrap.VERIF_DIR, "fuzz", "c08_fuzz.py"), out, corpus, f"-runs={runs}", f"-seed={seed}", "-max_len=96", "-timeout=120", "-rss_limit_mb=4096", f"-artifact_prefix={out}/"]
        r = subprocess.run(cmd, capture_output=True, text=True)
        try:
            stats = json.load(open(os.path.join(out, "stats.json")))
        except Exception:  # noqa: BLE001
            stats = {}
        execs = int(stats.get("execs", 0))
        if execs == 0:
            # the auxiliary campaign could not run here (environment): say so in the evidence; the other tasks decide
            ctx.label("atheris:did-not-run")
            ctx.notes[f"atheris-{shard}"] = f"exit {r.returncode}: {(r.stdout + r.stderr)[-400:]}"
            return
        ctx.bulk(execs, int(stats.get("accepted", 0)) + int(stats.get("created", 0)), label="atheris:exec")
        ctx.sample("atheris", {"shard": shard, "seed": seed, "execs": execs, "accepted": stats.get("accepted"), "created": stats.get("created"), "buckets": {k: v["n"] for k, v in stats.get("buckets", {}).items()}}, True)
        for f in sorted(glob.glob(os.path.join(out, "finding-*.bin")) + glob.glob(os.path.join(out, "crash-*")) + glob.glob(os.path.join(out, "timeout-*")) + glob.glob(os.path.join(out, "oom-*"))):
            with open(f, "rb") as fh:
                ctx.case("fuzz", {"hex": fh.read().hex()})
    finally:
        shutil.rmtree(work, ignore_errors=True)


def task_panel(ctx: Ctx) -> None:
    """Deterministic sweep: every panel pattern x fixed cultures x a few values x all mutation operators."""
    cults = [c for c in CULTURES_FIXED if c in T.culture_names()]
    vals = {
        "date": [{"cal": "ISO", "n": 0}, {"cal": "ISO", "n": 19782}, {"cal": "Hebrew Civil", "n": 19782}, {"cal": "Persian Simple", "n": 19000}, {"cal": "Julian", "n": -800000}],
        "time": [{"ns": 0}, {"ns": 86399999999999}, {"ns": 45296789012345}],
        "datetime": [{"cal": "ISO", "n": 19782, "ns": 45296789012345}, {"cal": "Coptic", "n": 100, "ns": 0}, {"cal": "ISO", "n": 2932896, "ns": 0}, {"cal": "ISO", "n": -4371222, "ns": 0}, {"cal": "Um Al Qura", "n": 39401, "ns": 0}],
        "instant": [{"i": 0}, {"i": 1709251200123456789}, {"i": T.INST_MIN}, {"i": T.INST_MAX}, {"i": 2932896 * T.DAY}],
        "offset": [{"s": 0}, {"s": 64800}, {"s": -64799}, {"s": 19800}],
        "duration": [{"ns": 0}, {"ns": -1}, {"ns": T.DUR_MAX}, {"ns": T.DUR_MIN}, {"ns": 93784005006007}],
        "annual": [{"m": 2, "d": 29}, {"m": 12, "d": 31}],
    }
    muts = [[op, pos, arg] for op in range(16) for pos, arg in ((0, 0), (3, 1), (7, 4), (11, 9))]
    for t in T.TYPES:
        for pattern in PARSE_PANEL[t]:
            for cname in cults:
                for v in vals[t]:
                    ctx.case("parse", {"type": t, "pattern": pattern, "culture": cname, "value": v, "muts": muts, "extra": ["", " ", "\x00"]})


def tasks(tier: str, seed: int) -> list[Task]:
    n = 4000 if tier == "quick" else 40000
    out = [Task("task_hyp", {"shard": i, "n": n}, f"hyp-{i}") for i in range(14)]
    out.append(Task("task_panel", {}, "panel"))
    for j in range(2 if tier == "quick" else 16):
        out.append(Task("task_atheris", {"shard": j, "runs": 20000 if tier == "quick" else 600000}, f"atheris-{j}"))
    return out
