"""C18 - Interval and DateInterval behave as the sets of instants / days they denote.

Oracle: Python range/set model on day numbers (DateInterval) and on int nanoseconds (Interval).
"""

from __future__ import annotations

from hypothesis import strategies as st

from harness import pyo
from harness.core import CaseInfo, Ctx, InvalidCase, Mismatch, Task, sub_seed
from harness.gen import ints_biased, run_hypothesis

PROPERTY = "C18"
LEVEL = "exploration"
RULE = (
    "DateInterval pairs A=[a,a+la], B=[a+delta,a+delta+lb] with la,lb in [0,12], delta in [-16,16] in every calendar "
    "(anchors incl. both ends of each calendar); thorough enumerates the full (la,lb,delta) grid on 50 anchors per "
    "calendar. Interval pairs from generated instants with each end independently unbounded and empty intervals. "
    "Oracle: Python set/range model. Non-trivial: the pair is not far-disjoint (gap <= 1 day) or an end is "
    "unbounded; distinct = (kind, case) hash."
)
ASSUMPTIONS = ["day<->date bijection (C01) is used to build dates from day numbers"]

DAY = pyo.DAY
INST_MIN = -4371222 * DAY
INST_MAX = (2932896 + 1) * DAY - 1


def exhaustive(tier: str) -> bool:
    return False


def need(cond: bool, sig: str, msg: str = "") -> None:
    if not cond:
        raise Mismatch(sig, msg)


def eval_case(kind: str, c: dict) -> CaseInfo:
    return globals()["_k_" + kind](c)


def _di(cid: str, lo: int, hi: int):
    from pyoda_time import DateInterval

    return DateInterval(pyo.date_from_day(cid, lo), pyo.date_from_day(cid, hi))


def _span(di) -> tuple[int, int]:
    return di.start._days_since_epoch, di.end._days_since_epoch


def _k_di(c) -> CaseInfo:
    from pyoda_time import DateInterval

    cid, a, la, delta, lb = c["cal"], c["a"], c["la"], c["delta"], c["lb"]
    cal = pyo.cal(cid)
    b = a + delta
    if la < 0 or lb < 0 or not (cal._min_days <= a and a + la <= cal._max_days and cal._min_days <= b and b + lb <= cal._max_days):
        raise InvalidCase
    A, B = _di(cid, a, a + la), _di(cid, b, b + lb)
    sa, sb = set(range(a, a + la + 1)), set(range(b, b + lb + 1))
    need(len(A) == la + 1 and len(B) == lb + 1, "len", f"{len(A)} {len(B)}")
    need(_span(A) == (a, a + la) and A.calendar is cal, "start-end")
    need([d._days_since_epoch for d in A] == list(range(a, a + la + 1)), "iter", f"{[d._days_since_epoch for d in A]}")
    for n in range(max(cal._min_days, a - 2), min(cal._max_days, a + la + 2) + 1):
        d = pyo.date_from_day(cid, n)
        need((d in A) == (n in sa) and A.contains(d) == (n in sa), "contains-date", f"day {n} in [{a},{a + la}]")
    need((B in A) == (sb <= sa) and A.contains(B) == (sb <= sa), "contains-interval", f"A=[{a},{a + la}] B=[{b},{b + lb}]")
    need((A in B) == (sa <= sb), "contains-interval-rev")
    inter = sa & sb
    for x, y, nm in ((A, B, "and"), (B, A, "and-rev")):
        r = x & y
        r2 = x.intersection(y)
        if inter:
            need(r is not None and _span(r) == (min(inter), max(inter)), nm, f"A=[{a},{a + la}] B=[{b},{b + lb}] -> {None if r is None else _span(r)}")
            need(r2 == r, nm + "/intersection()")
        else:
            need(r is None and r2 is None, nm + "/disjoint-not-none", f"A=[{a},{a + la}] B=[{b},{b + lb}] -> {None if r is None else _span(r)}")
    union = sa | sb
    contiguous = len(union) == max(union) - min(union) + 1
    for x, y, nm in ((A, B, "or"), (B, A, "or-rev")):
        r = x | y
        r2 = x.union(y)
        if contiguous:
            need(r is not None and _span(r) == (min(union), max(union)), nm, f"A=[{a},{a + la}] B=[{b},{b + lb}] -> {None if r is None else _span(r)}")
            need(r2 == r, nm + "/union()")
        else:
            need(r is None and r2 is None, nm + "/gap-not-none", f"A=[{a},{a + la}] B=[{b},{b + lb}] -> {None if r is None else _span(r)}")
    A2 = _di(cid, a, a + la)
    need(A == A2 and not (A != A2) and hash(A) == hash(A2) and A.equals(A2), "eq-hash")
    need((A == B) == (sa == sb), "eq-model")
    # construction: end before start, mixed calendars
    if la > 0:
        try:
            DateInterval(pyo.date_from_day(cid, a + la), pyo.date_from_day(cid, a))
            raise Mismatch("ctor/end-before-start-accepted", f"[{a + la},{a}]")
        except ValueError:
            pass
    oid = c.get("other", "ISO")
    if oid != cid:
        oc = pyo.cal(oid)
        if oc._min_days <= a <= oc._max_days and oc._min_days <= a + la <= oc._max_days:
            od = pyo.date_from_day(oid, a)
            for fn, nm in (
                (lambda: DateInterval(pyo.date_from_day(cid, a), pyo.date_from_day(oid, a + la)), "ctor/mixed-calendars-accepted"),
                (lambda: od in A, "contains-date/other-calendar-accepted"),
                (lambda: _di(oid, a, a + la) in A, "contains-interval/other-calendar-accepted"),
                (lambda: A & _di(oid, a, a + la), "and/other-calendar-accepted"),
                (lambda: A | _di(oid, a, a + la), "or/other-calendar-accepted"),
            ):
                try:
                    fn()
                except ValueError:
                    continue
                raise Mismatch(nm, f"{cid} vs {oid}")
    gap = max(a, b) - min(a + la, b + lb)
    return CaseInfo(gap <= 1, "di:" + ("overlap" if inter else ("adjacent" if contiguous else "disjoint")))


def _k_ym(c) -> CaseInfo:
    from pyoda_time import YearMonth

    cid, y, m = c["cal"], c["y"], c["m"]
    cal = pyo.cal(cid)
    if not cal.min_year <= y <= cal.max_year or not 1 <= m <= cal.get_months_in_year(y):
        raise InvalidCase
    di = YearMonth(year=y, month=m, calendar=cal).to_date_interval()
    dim = cal.get_days_in_month(y, m)
    need(pyo.fields(di.start) == (y, m, 1) and pyo.fields(di.end) == (y, m, dim) and len(di) == dim and di.calendar is cal, "to_date_interval", f"{cid} {y}-{m}")
    return CaseInfo(True, "ym")


def _inst(i):
    from pyoda_time import Instant

    return None if i is None else Instant._ctor(days=i // DAY, nano_of_day=i % DAY)


def _k_iv(c) -> CaseInfo:
    from pyoda_time import Interval

    s, e, probes = c["s"], c["e"], c["probes"]
    for v in (s, e):
        if v is not None and not INST_MIN <= v <= INST_MAX:
            raise InvalidCase
    S, E = _inst(s), _inst(e)
    if s is not None and e is not None and e < s:
        try:
            Interval(S, E)
        except ValueError:
            return CaseInfo(True, "iv:rejected")
        raise Mismatch("ctor/end-before-start-accepted", f"{s} {e}")
    iv = Interval(S, E)
    need(iv.has_start == (s is not None) and iv.has_end == (e is not None), "has_start/has_end")
    for name, v in (("start", s), ("end", e)):
        try:
            got = getattr(iv, name)
        except RuntimeError:
            need(v is None, f"{name}/raised-although-bounded")
        else:
            need(v is not None, f"{name}/unbounded-but-returned")
            need(got._time_since_epoch.to_nanoseconds() == v, f"{name}/value")
    try:
        dur = iv.duration
    except RuntimeError:
        need(s is None or e is None, "duration/raised-although-bounded")
    else:
        need(s is not None and e is not None, "duration/unbounded-but-returned")
        need(dur.to_nanoseconds() == e - s, "duration/value", f"{dur.to_nanoseconds()} != {e - s}")
    t = tuple(iv)
    need(len(t) == 2 and (t[0] is None) == (s is None) and (t[1] is None) == (e is None), "iter")
    if s is not None:
        need(t[0]._time_since_epoch.to_nanoseconds() == s, "iter/start")
    if e is not None:
        need(t[1]._time_since_epoch.to_nanoseconds() == e, "iter/end")
    pts = set(p for p in probes if INST_MIN <= p <= INST_MAX)
    for v in (s, e):
        if v is not None:
            pts |= {x for x in (v - 1, v, v + 1) if INST_MIN <= x <= INST_MAX}
    pts |= {INST_MIN, INST_MAX}
    for p in pts:
        exp = (s is None or s <= p) and (e is None or p < e)
        P = _inst(p)
        need((P in iv) == exp and iv.contains(P) == exp, "contains", f"{p} in [{s},{e}) expected {exp}")
    same = Interval(_inst(s), _inst(e))
    need(iv == same and not (iv != same) and hash(iv) == hash(same) and iv.equals(same), "eq-hash")
    if s is not None and e is not None and e > s:
        other = Interval(_inst(s), _inst(e - 1))
        need(iv != other, "ne")
    return CaseInfo(s is None or e is None or s == e, "iv:" + ("unbounded" if s is None or e is None else ("empty" if s == e else "bounded")))


# ---------------------------------------------------------------------------------------------------------------


def task_hyp(ctx: Ctx, shard: int, n: int) -> None:
    s = sub_seed(ctx.seed, "c18", shard)
    units = (100, 10**9, DAY)
    inst = st.one_of(ints_biased(INST_MIN, INST_MAX, units), ints_biased(-(10**18), 10**18, units))
    opt = st.one_of(st.none(), inst)

    def body(cd, la, lb, delta, other, s_, e_, probes, swap, ymraw):
        cid, a = cd
        cal = pyo.cal(cid)
        lo, hi = cal._min_days, cal._max_days
        # keep both intervals inside the calendar (constructive clamp)
        a2 = min(max(a, lo + max(0, -delta)), hi - max(la, delta + lb, 0))
        if lo <= a2 and a2 + la <= hi and lo <= a2 + delta and a2 + delta + lb <= hi:
            ctx.case("di", {"cal": cid, "a": a2, "la": la, "delta": delta, "lb": lb, "other": other})
        if s_ is not None and e_ is not None and not swap and e_ < s_:
            s_, e_ = e_, s_
        ctx.case("iv", {"s": s_, "e": e_, "probes": probes})
        if s_ is not None:
            ctx.case("iv", {"s": s_, "e": s_, "probes": probes})
        y = cal.min_year + ymraw % (cal.max_year - cal.min_year + 1)
        ctx.case("ym", {"cal": cid, "y": y, "m": 1 + (ymraw >> 16) % cal.get_months_in_year(y)})

    run_hypothesis(
        body,
        dict(
            cd=pyo.st_cal_day(),
            la=st.integers(0, 12),
            lb=st.integers(0, 12),
            delta=st.integers(-16, 16),
            other=st.sampled_from(pyo.cal_ids()),
            s_=opt,
            e_=opt,
            probes=st.lists(inst, max_size=4),
            swap=st.integers(0, 9).map(lambda v: v == 0),
            ymraw=st.integers(0, 2**32),
        ),
        n,
        s,
    )


def _k_di_long(c) -> CaseInfo:
    """A long date interval (more than a year) is exactly the set of its days: iteration yields every day number once,
    in order, as valid dates of the calendar; len, membership of both ends and of the neighbours agree."""
    cid, a, ln = c["cal"], c["a"], c["len"]
    cal = pyo.cal(cid)
    if not (cal._min_days <= a and a + ln - 1 <= cal._max_days and 1 <= ln <= 1200):
        raise InvalidCase
    iv = _di(cid, a, a + ln - 1)
    need(len(iv) == ln, "di-long/len", f"{len(iv)} != {ln}")
    i = -1
    for i, d in enumerate(iv):
        need(i < ln, "di-long/iterates-too-far")
        ref = pyo.date_from_day(cid, a + i)
        need(d._days_since_epoch == a + i and pyo.fields(d) == pyo.fields(ref) and d.calendar is cal, "di-long/element", f"{cid}: element {i} is {pyo.fmt_date(d)} (day {d._days_since_epoch}), expected {pyo.fmt_date(ref)} (day {a + i})")
    need(i == ln - 1, "di-long/count", f"{i + 1} elements, len {ln}")
    need(pyo.date_from_day(cid, a) in iv and pyo.date_from_day(cid, a + ln - 1) in iv, "di-long/ends-not-contained")
    if a - 1 >= cal._min_days:
        need(pyo.date_from_day(cid, a - 1) not in iv, "di-long/day-before-contained")
    if a + ln <= cal._max_days:
        need(pyo.date_from_day(cid, a + ln) not in iv, "di-long/day-after-contained")
    return CaseInfo(True, "di_long")


def task_long(ctx: Ctx, cal: str, years: int) -> None:
    """Intervals of 300-800 days starting in the last / first days of seed-chosen years (lunar years are short)."""
    from pyoda_time import LocalDate

    c = pyo.cal(cal)
    ny = c.max_year - c.min_year + 1
    y0 = c.min_year + 1 + sub_seed(ctx.seed, "c18long", cal) % max(1, ny - years - 3)
    for y in range(y0, min(c.max_year - 2, y0 + years)):
        d = LocalDate(y, 1, 1, c)
        start = d._days_since_epoch - (d.day_of_year - 1)
        for off, ln in ((-3, 360), (-9, 400), (2, 356), (-1, 740)):
            if c._min_days <= start + off and start + off + ln <= c._max_days:
                ctx.case("di_long", {"cal": cal, "a": start + off, "len": ln})


def task_grid(ctx: Ctx, cal: str, anchors: list[int]) -> None:
    c = pyo.cal(cal)
    for a in anchors:
        for la in range(0, 13):
            for lb in range(0, 13):
                for delta in range(-16, 17):
                    if c._min_days <= a + delta and a + delta + lb <= c._max_days and a + la <= c._max_days:
                        ctx.case("di", {"cal": cal, "a": a, "la": la, "delta": delta, "lb": lb, "other": "ISO"})


def tasks(tier: str, seed: int) -> list[Task]:
    out = [Task("task_hyp", {"shard": i, "n": (1500 if tier == "quick" else 20000)}, f"hyp-{i}") for i in range(14)]
    n_anchor = 1 if tier == "quick" else 50
    for cid in pyo.cal_ids():
        c = pyo.cal(cid)
        span = c._max_days - c._min_days - 40
        anchors = sorted({c._min_days + 16 + (sub_seed(seed, "c18a", cid, k) % span) for k in range(n_anchor)} | {c._min_days, c._max_days - 12})
        if tier == "quick":
            anchors = anchors[:1] + anchors[-1:]
            # quick: a reduced grid is produced by the same task on 2 anchors (min edge and one seed-chosen)
        out.append(Task("task_grid", {"cal": cid, "anchors": anchors if tier != "quick" else anchors[:2]}, f"grid-{cid}"))
        out.append(Task("task_long", {"cal": cid, "years": 12 if tier == "quick" else 300}, f"long-{cid}"))
    return out
