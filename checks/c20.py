"""C20 - damaged time-zone data is rejected with the documented error, promptly.

Fault enumeration over the two real database files: every prefix (thorough) / structural prefixes (quick), and
k-byte substitutions / insertions / deletions (k <= 4) biased to structural bytes found by the independent parser.
Outcome per fault: loading + listing ids + fetching zones either works or raises InvalidPyodaDataError.
"Promptly / no exhaustion": a wall-clock watchdog only triggers a deterministic re-run under a call budget.
"""

from __future__ import annotations

import io
from functools import lru_cache

from hypothesis import strategies as st

from checks import c06
from harness.core import CaseInfo, Ctx, InvalidCase, Mismatch, Task, sub_seed
from harness.gen import run_hypothesis

PROPERTY = "C20"
LEVEL = "fault_enumeration"
RULE = (
    "Faults applied to the two real .nzd files: truncation at every prefix (thorough) or at every field boundary "
    "+/-1, every structural byte offset of 20 zones and 1500 seed-chosen prefixes (quick); every top-level field id replaced / deleted / duplicated; one count of every kind inflated to 2^28..2^31; k-byte faults (k<=4): "
    "substitution / insertion / deletion at positions drawn 50% from structural bytes (field ids, length varints, "
    "counts, type and flag bytes, transition markers, pool indices) with values biased to {0,1,2,0x7f,0x80,0xff,b+/-1}. "
    "After each fault: from_stream, list ids, for_id and DateTimeZoneCache[id] for the zones whose field was hit, "
    "5 unaffected zones, and more when the pool / id map was hit. Non-trivial: the damaged stream still loads (damage "
    "surfaces - or not - only when zones are fetched) or the fault lies inside a zone payload. Distinct = fault hash."
)
ASSUMPTIONS = [
    "allowed outcomes: success, or pyoda_time.utility.InvalidPyodaDataError",
    "memory exhaustion = MemoryError, or peak resident memory growing by more than 200 MB for one damaged stream (pristine: a few MB)",
    "hang / exhaustion is decided by a deterministic Python-call budget, triggered by a 25 s watchdog",
]


def exhaustive(tier: str) -> bool:
    return False


def need(cond: bool, sig: str, msg: str = "") -> None:
    if not cond:
        raise Mismatch(sig, msg)


def eval_case(kind: str, c: dict) -> CaseInfo:
    return globals()["_k_" + kind](c)


@lru_cache(maxsize=None)
def raw(which: str) -> bytes:
    with open(c06.file_path(which), "rb") as fh:
        return fh.read()


@lru_cache(maxsize=None)
def structure(which: str):
    """(sorted structural offsets, list of (field_start, field_end, zone id or field id))"""
    db = c06.ref_db(which)
    marks = {m[0] for m in db.marks}
    spans = []
    by_field = {}
    for z in db.zones.values():
        marks |= {m[0] for m in z.marks}
        by_field[z.field_start] = z.id
    for fid, fstart, pstart, pend in db.fields:
        spans.append((fstart, pend, by_field.get(fstart, f"field:{fid}")))
    return sorted(marks), spans


def field_of(which: str, pos: int):
    _, spans = structure(which)
    for a, b, name in spans:
        if a <= pos < b:
            return name
    return "header" if pos < 4 else "eof"


def apply_fault(data: bytes, edits: list) -> bytes:
    """edits: list of [op, pos, value] with op in sub/ins/del, applied right-to-left so positions stay valid."""
    b = bytearray(data)
    for op, pos, val in sorted(edits, key=lambda e: -e[1]):
        if pos > len(b) or (op != "ins" and pos >= len(b)):
            continue
        if op == "sub":
            b[pos] = val & 0xFF
        elif op == "ins":
            b.insert(pos, val & 0xFF)
        elif op == "del":
            del b[pos]
    return bytes(b)


def exercise(which: str, data: bytes, hit_fields: set, extra: int) -> tuple[bool, int]:
    """Load, list, fetch. Raises anything that is not the documented error. Returns (loaded, zones fetched)."""
    from pyoda_time.time_zones import DateTimeZoneCache
    from pyoda_time.time_zones._tzdb_date_time_zone_source import TzdbDateTimeZoneSource
    from pyoda_time.utility import InvalidPyodaDataError

    try:
        src = TzdbDateTimeZoneSource.from_stream(io.BytesIO(data))
    except InvalidPyodaDataError:
        return False, 0
    try:
        ids = list(src.get_ids())
        _ = src.version_id
    except InvalidPyodaDataError:
        return True, 0
    try:
        cache = DateTimeZoneCache(src)
    except InvalidPyodaDataError:
        cache = None
    db = c06.ref_db(which)
    targets = []
    for f in sorted(hit_fields):
        if f in db.zones:
            targets.append(f)
            targets += [a for a, cn in db.id_map.items() if cn == f][:2]
    idset = set(ids)
    sorted_ids = sorted(idset, key=repr)
    step = max(1, len(sorted_ids) // max(1, extra))
    targets += sorted_ids[::step][:extra]
    fetched = 0
    for zid in targets:
        if zid not in idset:
            continue
        for fn in ((lambda: src.for_id(zid)), (lambda: cache[zid]) if cache is not None else None):
            if fn is None:
                continue
            try:
                z = fn()
                fetched += 1
                _ = (z.id, z.min_offset, z.max_offset)
            except InvalidPyodaDataError:
                pass
    return True, fetched


def _k_fault(c) -> CaseInfo:
    which = c["file"]
    if which not in c06.FILES:
        raise InvalidCase
    data = raw(which)
    if "prefix" in c:
        n = c["prefix"]
        if not 0 <= n < len(data):
            raise InvalidCase
        damaged = data[:n]
        hit = {field_of(which, n)}
    else:
        edits = c["edits"]
        if not 1 <= len(edits) <= 4 or any(e[0] not in ("sub", "ins", "del") or not 0 <= e[1] <= len(data) for e in edits):
            raise InvalidCase
        damaged = apply_fault(data, edits)
        if damaged == data:
            raise InvalidCase
        hit = {field_of(which, e[1]) for e in edits}
    wide = any(h in ("field:0", "field:3", "header") for h in hit)
    import resource

    rss0 = resource.getrusage(resource.RUSAGE_SELF).ru_maxrss
    try:
        loaded, fetched = exercise(which, damaged, hit, c.get("extra", 40 if wide else 5))
    except MemoryError:
        raise Mismatch("memory-exhaustion", "MemoryError while loading / fetching from damaged data") from None
    grown_mb = (resource.getrusage(resource.RUSAGE_SELF).ru_maxrss - rss0) // 1024
    # loading the pristine 130 kB file needs a few MB; hundreds of MB for a damaged one is exhaustion in the making
    need(grown_mb < 200, "memory-exhaustion", f"peak resident memory grew by {grown_mb} MB while handling the damaged stream")
    inside_zone = any(not h.startswith("field:") and h not in ("header", "eof") for h in hit)
    return CaseInfo(loaded or inside_zone, "fault:loaded" if loaded else "fault:rejected-at-load")


# ---------------------------------------------------------------------------------------------------------------


def task_prefixes(ctx: Ctx, which: str, prefixes: list[int]) -> None:
    for n in prefixes:
        if ctx.should_abort():
            break
        ctx.case("fault", {"file": which, "prefix": n})


def task_prefix_range(ctx: Ctx, which: str, lo: int, hi: int) -> None:
    for n in range(lo, hi):
        if ctx.should_abort():
            break
        ctx.case("fault", {"file": which, "prefix": n})


VALUES = [0, 1, 2, 3, 0x7F, 0x80, 0x81, 0xFF, 0xC0, 0xA0, 0x40]


def task_structural_subs(ctx: Ctx, which: str, part: int, parts: int, per_pos: int) -> None:
    """Deterministic sweep: every structural byte of the file gets per_pos single-byte substitutions."""
    marks, _ = structure(which)
    data = raw(which)
    for i, pos in enumerate(marks):
        if i % parts != part or pos >= len(data):
            continue
        if ctx.should_abort():
            break
        b = data[pos]
        vals = [v for v in dict.fromkeys([(b + 1) & 0xFF, (b - 1) & 0xFF] + VALUES) if v != b]
        k = sub_seed(ctx.seed, "c20s", which, pos)
        for j in range(per_pos):
            ctx.case("fault", {"file": which, "edits": [["sub", pos, vals[(k + j) % len(vals)]]]})


INFLATE_KINDS = ("period-count", "pool-count", "map-count", "field-length", "pool-string-length", "pool-index", "rule-month", "version-length")


def task_inflate(ctx: Ctx, which: str, part: int, parts: int) -> None:
    """Deterministic sweep: every count-like varint is inflated to a huge (but legal, < 2^31) value, with and
    without changing the length of the stream (damaged counts are what drives allocation and loops)."""
    import resource

    try:
        resource.setrlimit(resource.RLIMIT_AS, (8 << 30, resource.RLIM_INFINITY))
    except (ValueError, OSError):
        pass
    db = c06.ref_db(which)
    marks = [(p, k) for p, k in db.marks if k in INFLATE_KINDS]
    for z in db.zones.values():
        marks += [(p, k) for p, k in z.marks if k in INFLATE_KINDS]
    # the inline (non-pooled) version string's length prefix is a count too
    marks += [(ps, "version-length") for fid, fs, ps, pe in db.fields if fid == 2]
    marks.sort()
    size = len(raw(which))
    # one representative of every kind is always taken (whatever the partition), so the quick tier inflates every
    # kind of count at least once per file
    first_of_kind: dict[str, int] = {}
    for pos, kind in marks:
        first_of_kind.setdefault(kind, pos)
    always = set(first_of_kind.values()) if part == 0 else set()
    for i, (pos, kind) in enumerate(marks):
        if (i % parts != part and pos not in always) or pos + 4 > size or ctx.should_abort():
            continue
        big = [0xFF, 0xFF, 0xFF, 0x7F]
        ctx.case("fault", {"file": which, "edits": [["sub", pos + j, big[j]] for j in range(4)]})
        ctx.case("fault", {"file": which, "edits": [["ins", pos, b] for b in reversed(big)]})
        ctx.case("fault", {"file": which, "edits": [["ins", pos, 0xFF], ["ins", pos, 0xFF], ["ins", pos, 0xFF]]})
        # four continuation bytes in front: the original byte becomes the top bits (up to 2^31 for a small count)
        ctx.case("fault", {"file": which, "edits": [["ins", pos, 0xFF], ["ins", pos, 0xFF], ["ins", pos, 0xFF], ["ins", pos, 0xFF]]})


# --- coverage-guided campaign (atheris / libFuzzer) over a small real database ----------------------------------------

# small real zones: fixed, precalculated without a tail, with a tail (standard/daylight rules), negative-savings tail
MINI_ZONES = ["Etc/GMT+5", "EST", "Antarctica/Troll", "Pacific/Norfolk", "America/Indiana/Vevay", "Europe/Andorra"]


def _varint(n: int) -> bytes:
    out = bytearray()
    while True:
        b = n & 0x7F
        n >>= 7
        if n:
            out.append(b | 0x80)
        else:
            out.append(b)
            return bytes(out)


@lru_cache(maxsize=None)
def mini_parts(which: str = "bundled") -> tuple[bytes, bytes]:
    """(prefix, tail) of a small valid database cut out of the real file: prefix = header + string pool + Windows
    mapping (never mutated), tail = version + 8 real zone fields + an alias map restricted to those zones."""
    data = raw(which)
    db = c06.ref_db(which)
    by_fid: dict[int, list[bytes]] = {}
    for fid, fstart, pstart, pend in db.fields:
        by_fid.setdefault(fid, []).append(data[fstart:pend])
    keep = [z for z in MINI_ZONES if z in db.zones]
    zone_fields = [data[db.zones[z].field_start : db.zones[z].payload_end] for z in keep]
    pool_ix = {s_: i for i, s_ in enumerate(db.pool)}
    pairs = [(a, cn) for a, cn in sorted(db.id_map.items()) if cn in keep and a in pool_ix and cn in pool_ix][:4]
    payload = _varint(len(pairs)) + b"".join(_varint(pool_ix[a]) + _varint(pool_ix[cn]) for a, cn in pairs)
    idmap = bytes([3]) + _varint(len(payload)) + payload
    # a slim string pool: same indices, but every string the kept fields do not reference becomes "" (2 kB, not 21 kB)
    from ref.nzd import _peek_varint

    needed = {pool_ix[x] for pr in pairs for x in pr}
    for z in keep:
        needed |= {_peek_varint(data, pos) for pos, kind in db.zones[z].marks if kind == "pool-index"}
    ppay = _varint(len(db.pool)) + b"".join((_varint(len(t.encode())) + t.encode()) if i in needed else b"\x00" for i, t in enumerate(db.pool))
    pool = bytes([0]) + _varint(len(ppay)) + ppay
    some = _varint(min(needed))
    wpay = some + some + some + _varint(0)  # Windows mapping: three (pooled) version strings and no map zones
    windows = bytes([4]) + _varint(len(wpay)) + wpay
    prefix = data[:4] + pool + windows
    tail = by_fid[2][0] + b"".join(zone_fields) + idmap
    return prefix, tail


def exercise_bytes(data: bytes) -> tuple[bool, int]:
    from pyoda_time.time_zones import DateTimeZoneCache
    from pyoda_time.time_zones._tzdb_date_time_zone_source import TzdbDateTimeZoneSource
    from pyoda_time.utility import InvalidPyodaDataError

    try:
        src = TzdbDateTimeZoneSource.from_stream(io.BytesIO(data))
    except InvalidPyodaDataError:
        return False, 0
    try:
        ids = list(src.get_ids())
        _ = src.version_id
    except InvalidPyodaDataError:
        return True, 0
    try:
        cache = DateTimeZoneCache(src)
    except InvalidPyodaDataError:
        cache = None
    fetched = 0
    for k, zid in enumerate(ids[:40]):
        for fn in ((lambda: src.for_id(zid)), (lambda: cache[zid]) if cache is not None and k % 4 == 0 else None):
            if fn is None:
                continue
            try:
                z = fn()
                fetched += 1
                _ = (z.id, z.min_offset, z.max_offset)
            except InvalidPyodaDataError:
                pass
    return True, fetched


def _k_bytes(c) -> CaseInfo:
    """A whole damaged stream given as the (hex) tail after the mini database's fixed prefix."""
    import resource

    try:
        tail = bytes.fromhex(c["tail"][: len(c["tail"]) // 2 * 2])
    except (ValueError, TypeError, KeyError):
        raise InvalidCase from None
    prefix, pristine = mini_parts("bundled")
    rss0 = resource.getrusage(resource.RUSAGE_SELF).ru_maxrss
    try:
        loaded, fetched = exercise_bytes(prefix + tail)
    except MemoryError:
        raise Mismatch("memory-exhaustion", "MemoryError while loading / fetching from damaged data") from None
    grown_mb = (resource.getrusage(resource.RUSAGE_SELF).ru_maxrss - rss0) // 1024
    need(grown_mb < 200, "memory-exhaustion", f"peak resident memory grew by {grown_mb} MB while handling the damaged stream")
    return CaseInfo(tail != pristine, "bytes:loaded" if loaded else "bytes:rejected-at-load")


def task_atheris(ctx: Ctx, shard: int, runs: int) -> None:
    """libFuzzer campaign (fixed -seed, -runs; fresh corpus of the pristine tail and its per-field pieces). Findings
    the target saved - and libFuzzer's own crash/timeout/oom artifacts - are re-evaluated here through the ordinary
    `bytes` kind, so they are reported, shrunk and replayed like any other case."""
    import glob
    import json
    import os
    import shutil
    import subprocess
    import sys
    import tempfile

    from harness import bootstrap

    try:
        import atheris  # noqa: F401
    except Exception:  # noqa: BLE001
        ctx.label("atheris:unavailable")
        return
    prefix, tail = mini_parts("bundled")
    need_ok, _ = exercise_bytes(prefix + tail)
    if not need_ok:
        raise RuntimeError("mini database does not load on this tree")  # harness-side problem, not a property violation
    ctx.case("bytes", {"tail": tail.hex()})
    work = tempfile.mkdtemp(prefix=f"c20-atheris-{shard}-", dir=os.environ.get("VERIF_WORK_DIR") or None)
    try:
        corpus = os.path.join(work, "corpus")
        out = os.path.join(work, "out")
        os.makedirs(corpus)
        os.makedirs(out)
        with open(os.path.join(work, "prefix.bin"), "wb") as fh:
            fh.write(prefix)
        with open(os.path.join(corpus, "pristine"), "wb") as fh:
            fh.write(tail)
        if shard % 2:
            # odd shards also start from single-zone databases (short inputs mutate faster)
            data = raw("bundled")
            db = c06.ref_db("bundled")
            ver = [data[fs:pe] for fid, fs, ps, pe in db.fields if fid == 2][0]
            for z in MINI_ZONES:
                if z in db.zones:
                    zf = data[db.zones[z].field_start : db.zones[z].payload_end]
                    with open(os.path.join(corpus, "one-" + z.replace("/", "_")), "wb") as fh:
                        fh.write(ver + zf + bytes([3, 1, 0]))
        seed = 1 + sub_seed(ctx.seed, "c20-atheris", shard) % (2**31 - 2)
        cmd = [sys.executable, os.path.join(bootstrap.VERIF_DIR, "fuzz", "c20_fuzz.py"), os.path.join(work, "prefix.bin"), out, corpus,
               f"-runs={runs}", f"-seed={seed}", "-max_len=20000", "-timeout=120", "-rss_limit_mb=4096", f"-artifact_prefix={out}/", "-print_final_stats=1"]
        r = subprocess.run(cmd, capture_output=True, text=True, timeout=None)
        stats = {}
        try:
            stats = json.load(open(os.path.join(out, "stats.json")))
        except Exception:  # noqa: BLE001
            pass
        execs = int(stats.get("execs", 0))
        if execs == 0:
            # the auxiliary campaign could not run here (environment): say so in the evidence; the other tasks decide
            ctx.label("atheris:did-not-run")
            ctx.notes[f"atheris-{shard}"] = f"exit {r.returncode}: {(r.stdout + r.stderr)[-400:]}"
            return
        ctx.bulk(execs, int(stats.get("loaded", 0)), label="atheris:exec")
        ctx.sample("atheris", {"shard": shard, "seed": seed, "execs": execs, "loaded": stats.get("loaded"), "fetched": stats.get("fetched"), "buckets": {k: v["n"] for k, v in stats.get("buckets", {}).items()}}, True)
        for f in sorted(glob.glob(os.path.join(out, "finding-*.bin")) + glob.glob(os.path.join(out, "crash-*")) + glob.glob(os.path.join(out, "timeout-*")) + glob.glob(os.path.join(out, "oom-*"))):
            with open(f, "rb") as fh:
                ctx.case("bytes", {"tail": fh.read().hex()})
    finally:
        shutil.rmtree(work, ignore_errors=True)


def task_field_ids(ctx: Ctx, which: str, part: int, parts: int) -> None:
    """Deterministic sweep over the framing of every top-level field: its id byte becomes another known id, an
    unknown id, or disappears (a field that goes missing / arrives twice / changes kind)."""
    data = raw(which)
    db = c06.ref_db(which)
    for i, (fid, fstart, pstart, pend) in enumerate(db.fields):
        if i % parts != part or ctx.should_abort():
            continue
        rare = fid != 1  # the few non-zone fields get every value, the 350 zone fields a panel
        vals = [v for v in (range(0, 10) if rare else (0, 3, 5, 8)) if v != fid] + [0x7F, 0xFF]
        for v in vals:
            ctx.case("fault", {"file": which, "edits": [["sub", fstart, v]]})
        ctx.case("fault", {"file": which, "edits": [["del", fstart, 0]]})
        if rare:
            # drop the whole field (its bytes), and duplicate its id+length header
            n = pend - fstart
            if n <= 4:
                ctx.case("fault", {"file": which, "edits": [["del", fstart + j, 0] for j in range(n)]})
            ctx.case("fault", {"file": which, "edits": [["ins", fstart, data[fstart + j]] for j in range(min(2, n))]})


def task_rule_collide(ctx: Ctx, which: str, part: int, parts: int) -> None:
    """Deterministic sweep over the yearly rules of every zone with a recurring tail: one rule's month is overwritten
    with the other rule's month (when day / weekday / time agree the two recurrences then fire at the same instants -
    a stream that still loads and only fails when that zone is built)."""
    data = raw(which)
    db = c06.ref_db(which)
    zs = [z for z in sorted(db.zones.values(), key=lambda z: z.id) if z.tail is not None]
    for i, z in enumerate(zs):
        if i % parts != part or ctx.should_abort():
            continue
        pos = [p for p, k in z.marks if k == "rule-month"]
        if len(pos) != 2:
            continue
        a, b = pos
        if data[a] != data[b]:
            ctx.case("fault", {"file": which, "edits": [["sub", a, data[b]]]})
            ctx.case("fault", {"file": which, "edits": [["sub", b, data[a]]]})


def task_hyp(ctx: Ctx, which: str, shard: int, n: int) -> None:
    s = sub_seed(ctx.seed, "c20", which, shard)
    marks, _ = structure(which)
    size = len(raw(which))
    pos = st.one_of(st.sampled_from(marks), st.integers(0, size - 1), st.sampled_from(marks).flatmap(lambda m: st.integers(max(0, m - 2), min(size - 1, m + 3))))
    edit = st.tuples(st.sampled_from(["sub", "sub", "sub", "ins", "del"]), pos, st.one_of(st.sampled_from(VALUES), st.integers(0, 255))).map(list)

    def body(edits, near):
        # half of the multi-byte faults are clustered (adjacent bytes of one structure)
        if near and len(edits) > 1:
            p0 = edits[0][1]
            edits = [[e[0], min(size - 1, p0 + i), e[2]] for i, e in enumerate(edits)]
        ctx.case("fault", {"file": which, "edits": edits})

    run_hypothesis(body, dict(edits=st.lists(edit, min_size=1, max_size=4), near=st.booleans()), n, s)


def tasks(tier: str, seed: int) -> list[Task]:
    thorough = tier == "thorough"
    out = []
    for which in c06.FILES:
        size = len(raw(which))
        marks, spans = structure(which)
        if thorough:
            k = 24
            step = size // k + 1
            for j in range(k):
                out.append(Task("task_prefix_range", {"which": which, "lo": j * step, "hi": min(size, (j + 1) * step)}, f"prefix-{which}-{j}"))
        else:
            pref = set(range(0, 12))
            for a, b, _ in spans:
                pref |= {a - 1, a, a + 1, a + 2, b - 1}
            zones_marked = sorted(c06.ref_db(which).zones.values(), key=lambda z: z.id)
            for zi in range(0, len(zones_marked), max(1, len(zones_marked) // 20)):
                pref |= {m[0] for m in zones_marked[zi].marks}
            pref |= {sub_seed(seed, "c20p", which, i) % size for i in range(1500)}
            pl = sorted(p for p in pref if 0 <= p < size)
            for j in range(6):
                out.append(Task("task_prefixes", {"which": which, "prefixes": pl[j::6]}, f"prefix-{which}-{j}"))
        parts = 8 if not thorough else 16
        for j in range(parts):
            out.append(Task("task_structural_subs", {"which": which, "part": j + (0 if thorough else 0), "parts": parts * (1 if thorough else 20), "per_pos": 3 if thorough else 1}, f"subs-{which}-{j}"))
        for j in range(2):
            out.append(Task("task_rule_collide", {"which": which, "part": j, "parts": 2}, f"rule-collide-{which}-{j}"))
        for j in range(2):
            out.append(Task("task_field_ids", {"which": which, "part": j, "parts": 2}, f"field-ids-{which}-{j}"))
        for j in range(4):
            out.append(Task("task_inflate", {"which": which, "part": j, "parts": 4 * (1 if thorough else 12)}, f"inflate-{which}-{j}"))
        for j in range(4 if not thorough else 8):
            out.append(Task("task_hyp", {"which": which, "shard": j, "n": 300 if not thorough else 6000}, f"hyp-{which}-{j}"))
    for j in range(2 if not thorough else 16):
        out.append(Task("task_atheris", {"shard": j, "runs": 3000 if not thorough else 150000}, f"atheris-{j}"))
    return out
