#!/venv/bin/python
"""Runner:  /venv/bin/python run.py <Cxx> <quick|thorough> [--replay FILE]

exit 0  property held on everything explored (KNOWN-FINDING lines may be printed)
exit 1  at least one unlisted violation; one `VIOLATION property=<id> replay=<path>` line per root cause
exit 2  harness error (never a violation)
"""

from __future__ import annotations

import json
import os
import sys
import time

sys.dont_write_bytecode = True
sys.path.insert(0, os.path.dirname(os.path.abspath(__file__)))

from harness import bootstrap  # noqa: E402

bootstrap.ensure_env()

import importlib  # noqa: E402
import shutil  # noqa: E402
import traceback  # noqa: E402
from collections import Counter  # noqa: E402

from harness import core  # noqa: E402

VERIF_DIR = os.path.dirname(os.path.abspath(__file__))
# self-tests against a mutated copy (VERIF_REPO) never touch the committed evidence/replays
_ALT = bool(os.environ.get("VERIF_REPO") or os.environ.get("VERIF_ALT"))
EVID_DIR = os.path.join(VERIF_DIR, ".alt", "evidence") if _ALT else os.path.join(VERIF_DIR, "evidence")
REPLAY_DIR = os.path.join(VERIF_DIR, ".alt", "replays") if _ALT else os.path.join(VERIF_DIR, "replays")


def main(argv: list[str]) -> int:
    if len(argv) < 2:
        print(__doc__)
        return 2
    prop = argv[0].upper()
    replay = None
    tier = None
    rest = argv[1:]
    i = 0
    while i < len(rest):
        if rest[i] == "--replay":
            replay = rest[i + 1]
            i += 2
        else:
            tier = rest[i]
            i += 1
    tier = tier or os.environ.get("VERIF_TIER") or "quick"
    if tier not in ("quick", "thorough"):
        print(f"HARNESS-ERROR unknown tier {tier}")
        return 2
    seed = int(os.environ.get("VERIF_SEED", "1") or "1")
    modname = f"checks.{prop.lower()}"

    import pyoda_time  # noqa: F401  (fail early, as a harness error)

    bootstrap.pin_culture()
    module = importlib.import_module(modname)

    if replay:
        return do_replay(module, replay)

    t0 = time.time()
    import glob

    for stale in glob.glob(os.path.join(REPLAY_DIR, f"{prop}-*.json")):
        os.remove(stale)
    work = os.path.join(VERIF_DIR, ".work", f"{prop}-{os.getpid()}")
    os.makedirs(work, exist_ok=True)
    os.environ["VERIF_WORK"] = work
    try:
        tasks = module.tasks(tier, seed)
        results = core.run_tasks(modname, tasks, tier, seed)
    finally:
        shutil.rmtree(work, ignore_errors=True)

    evaluations = sum(r["evaluations"] for r in results)
    keys: set[int] = set()
    nt_bulk = 0
    labels: Counter[str] = Counter()
    failures: dict[str, list] = {}
    fail_counts: Counter[str] = Counter()
    samples: list = []
    nt_samples: list = []
    notes: dict = {}
    harness_errors: list[str] = []
    results.sort(key=lambda r: r["task"])
    for r in results:
        keys |= r["keys"]
        nt_bulk += r["nt_bulk"]
        labels.update(r["labels"])
        fail_counts.update(r["fail_counts"])
        for s, fl in r["failures"].items():
            failures.setdefault(s, []).extend(fl)
        if len(samples) < 6:
            samples += r["samples"][:1]
        if len(nt_samples) < 6:
            nt_samples += r["nt_samples"][:1]
        for k, v in r["notes"].items():
            if isinstance(v, (int, float)) and not isinstance(v, bool):
                notes[k] = notes.get(k, 0) + v
            else:
                notes.setdefault(k, v)
        harness_errors += r["harness_errors"]

    if harness_errors:
        print("HARNESS-ERROR", len(harness_errors), "error(s); first:")
        print(harness_errors[0])
        return 2

    known = [k for k in core.load_known_findings() if k["property"] == prop]
    open_sigs = {k["signature"]: k for k in known if k.get("status") == "open"}

    violations = []
    known_hit = []
    shrink_budget = 20.0 if tier == "quick" else 120.0
    for sig in sorted(failures):
        fl = sorted(failures[sig], key=lambda f: len(json.dumps(f[1], sort_keys=True, default=str)))
        kind, case, msg = fl[0]
        if sig in open_sigs:
            known_hit.append((sig, open_sigs[sig]["what"], fail_counts[sig]))
            continue
        try:
            small = case if sig.endswith("/nonterminating") else core.shrink_case(module, kind, case, sig, shrink_budget)
        except Exception:  # noqa: BLE001
            small = case
        if small != case:
            s2, m2 = core.signature_and_message(module, kind, small)
            if s2 == sig:
                msg = m2
            else:
                small = case
        path = write_replay(prop, sig, kind, small, case, msg)
        violations.append((sig, path, msg, fail_counts[sig]))

    distinct_nt = len(keys) + nt_bulk
    cov = {
        "evaluations": evaluations,
        "distinct_nontrivial": distinct_nt,
        "rule": module.RULE,
        "samples": core.jsonable((samples + nt_samples)[:10]),
        "labels": dict(sorted(labels.items())),
        "tasks": len(tasks),
        "slowest_tasks_s": {r["task"]: round(r.get("wall_s", 0.0), 1) for r in sorted(results, key=lambda r: -r.get("wall_s", 0.0))[:6]},
        "exhaustive": bool(getattr(module, "exhaustive", lambda t: False)(tier)),
        "root_causes_found": {s: fail_counts[s] for s in sorted(fail_counts)},
        "known_findings_hit": [s for s, _, _ in known_hit],
        "notes": core.jsonable(notes),
        "icu_mode": bootstrap.icu_mode(),
        "repo": bootstrap.repo_dir(),
    }
    ev = {
        "property_id": prop,
        "tier": tier,
        "seed": seed,
        "level": module.LEVEL,
        "coverage": cov,
        "assumptions": list(getattr(module, "ASSUMPTIONS", [])) + [f"icu_mode={bootstrap.icu_mode()}"],
        "wall_s": round(time.time() - t0, 2),
        "violations": len(violations),
    }
    try:
        core.validate_evidence(ev)
    except Exception as e:  # noqa: BLE001
        print(f"HARNESS-ERROR evidence does not validate: {e}")
        if evaluations == 0 or distinct_nt < 2:
            return 2
        return 2
    os.makedirs(EVID_DIR, exist_ok=True)
    with open(os.path.join(EVID_DIR, f"{prop}.json"), "w") as fh:
        json.dump(ev, fh, indent=1, sort_keys=True)
        fh.write("\n")

    for sig, what, n in known_hit:
        print(f"KNOWN-FINDING: property={prop} {what} [signature={sig} hits={n}]")
    for sig, path, msg, n in violations:
        print(f"VIOLATION property={prop} replay={path}")
        print(f"  signature={sig} hits={n}\n  {msg[:600]}")
    print(
        f"{prop} {tier} seed={seed}: evaluations={evaluations} distinct_nontrivial={distinct_nt} "
        f"violations={len(violations)} known={len(known_hit)} wall={ev['wall_s']}s icu={bootstrap.icu_mode()}"
    )
    return 1 if violations else 0


def write_replay(prop: str, sig: str, kind: str, case, original, msg: str) -> str:
    import hashlib

    h = hashlib.blake2b(sig.encode(), digest_size=5).hexdigest()
    d = REPLAY_DIR
    os.makedirs(d, exist_ok=True)
    path = os.path.join(d, f"{prop}-{h}.json")
    with open(path, "w") as fh:
        json.dump(
            {"property": prop, "signature": sig, "kind": kind, "case": core.jsonable(case),
             "original_case": core.jsonable(original), "message": msg},
            fh, indent=1, sort_keys=True,
        )
        fh.write("\n")
    return path


def do_replay(module, path: str) -> int:
    with open(path) as fh:
        rp = json.load(fh)
    prop = module.PROPERTY
    sig, msg = core.signature_and_message(module, rp["kind"], rp["case"])
    if sig is None:
        print(f"replay {path}: case passes (no violation)")
        return 0
    known = {k["signature"] for k in core.load_known_findings() if k["property"] == prop and k.get("status") == "open"}
    if sig in known:
        print(f"KNOWN-FINDING: property={prop} signature={sig}")
        return 0
    print(f"VIOLATION property={prop} replay={path}")
    print(f"  signature={sig}\n  {msg[:600]}")
    return 1


if __name__ == "__main__":
    try:
        rc = main(sys.argv[1:])
    except SystemExit:
        raise
    except BaseException:  # noqa: BLE001
        print("HARNESS-ERROR")
        traceback.print_exc()
        rc = 2
    sys.stdout.flush()
    sys.exit(rc)
